#!/bin/bash
# development tool: tools/try_mutation.sh <patch.diff> [props...]   (default: all claimed properties)
# applies the patch to /repo, builds the simulator, runs the quick sim tier of each property, reverts.
patch="$1"; shift
props="${*:-C01 C02 C03 C04 C05 C06 C07 C08 C09 C10 C11 C12 C13 C14 C15 C16 C18 C19 C20}"
cd /repo || exit 2
git diff --quiet || { echo "repo not clean"; exit 2; }
git apply "$patch" || { echo "patch does not apply"; exit 2; }
trap 'git -C /repo checkout -- . ' EXIT
(cd /verif/sim && CARGO_NET_OFFLINE=true cargo build --release --offline 2>&1 | grep -E "^error" -A8)
out=$(mktemp -d)
for p in $props; do
    r=$(/verif/sim/target/release/sim run --property $p --tier quick --evidence $out/$p.json --replays $out/replays 2>&1)
    if echo "$r" | grep -q "^VIOLATION"; then
        echo "$p: DETECTED  $(echo "$r" | grep '^violation:' | cut -c1-260)"
    else
        echo "$p: silent    $(echo "$r" | grep -E '^sim: [0-9]' | sed 's/distinct.*foreign/foreign/' | cut -c1-120)"
    fi
done
rm -rf $out
