#!/bin/bash
# development tool: tools/try_mutation.sh <patch.diff> [props...]   (default: all claimed properties)
# Works on scratch copies (outside /repo and /verif, removed afterwards): a copy of /repo's HEAD with
# the patch applied and a copy of the simulator sources pointed at it. Runs the quick sim tier of each
# property and reports DETECTED / silent.
patch="$1"; shift
props="${*:-C01 C02 C03 C04 C05 C06 C07 C08 C09 C10 C11 C12 C13 C14 C15 C16 C18 C19 C20}"
S=${TRY_SCRATCH:-/tmp/tm}
mkdir -p $S
rm -rf $S/repo $S/sim/src
mkdir -p $S/repo $S/sim
git -C /repo archive HEAD | tar -x -C $S/repo
(cd $S/repo && git init -q 2>/dev/null; git apply "$patch") || { echo "patch does not apply"; exit 2; }
cp /repo/Cargo.lock $S/repo/ 2>/dev/null
cp -r /verif/sim/src /verif/sim/Cargo.lock /verif/sim/.cargo $S/sim/ 2>/dev/null
sed "s#path = \"/repo\"#path = \"$S/repo\"#" /verif/sim/Cargo.toml > $S/sim/Cargo.toml
(cd $S/sim && CARGO_NET_OFFLINE=true cargo build --release --offline 2>&1 | grep -E "^error" -A8)
SIM=$S/sim/target/release/sim
out=$(mktemp -d)
for p in $props; do
    r=$($SIM run --property $p --tier quick --evidence $out/$p.json --replays $out/replays 2>&1)
    if echo "$r" | grep -q "^VIOLATION"; then
        echo "$p: DETECTED  $(echo "$r" | grep '^violation:' | cut -c1-260)"
    else
        echo "$p: silent    $(echo "$r" | grep -E '^sim: [0-9]' | sed 's/, [0-9]* distinct non-trivial.*states//' | cut -c1-120)"
    fi
done
rm -rf $out $S/repo
