#!/usr/bin/env python3
"""development tool: record in seeded/<id>/meta.json which checks detected the change (from a
try_mutation log) and regenerate the table for DESIGN.md section 10.
usage: seeded_update.py <log>...   (log = output of try_mutation.sh runs, sections '== <id>')"""
import json, sys, re, os, glob
det = {}
cur = None
for path in sys.argv[1:]:
    for line in open(path):
        m = re.match(r"== (\S+)", line)
        if m:
            cur = m.group(1); det.setdefault(cur, {}); continue
        m = re.match(r"(C\d\d): (DETECTED|silent)\s+(.*)", line)
        if m and cur:
            prop, res, rest = m.groups()
            sig = ""
            ms = re.search(r"violation: (\S+) at step", rest)
            if ms: sig = ms.group(1)
            det[cur][prop] = (res == "DETECTED", sig)
for mid, d in det.items():
    f = f"/verif/seeded/{mid}/meta.json"
    if not os.path.exists(f): continue
    meta = json.load(open(f))
    by = {x["check"]: x for x in meta.get("detected_by", []) if isinstance(x, dict)}
    for prop, (ok, sig) in d.items():
        by[prop] = {"check": prop, "tier": "quick", "detected": ok, "signature": sig}
    meta["detected_by"] = sorted(by.values(), key=lambda x: x["check"])
    json.dump(meta, open(f, "w"), indent=1)
rows = []
for f in sorted(glob.glob("/verif/seeded/*/meta.json")):
    meta = json.load(open(f))
    ds = [x for x in meta.get("detected_by", []) if isinstance(x, dict)]
    caught = ", ".join(f"{x['check']} `{x['signature']}`" for x in ds if x["detected"]) or "-"
    missed = ", ".join(x["check"] for x in ds if not x["detected"]) or ""
    rows.append(f"| {meta['id']} | {meta['breaks_property']} | {meta.get('summary', meta.get('needs_to_manifest',''))} | {caught} | {missed} |")
print("| id | aimed at | change / what it needs to manifest | caught by (quick tier) | silent |")
print("|---|---|---|---|---|")
print("\n".join(rows))
