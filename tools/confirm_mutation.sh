#!/bin/bash
# development tool: confirm a seeded change in its scratch worktree and store it under /verif/seeded/
# usage: confirm_mutation.sh <worktree> <mdir> <seeded-id> <property>
wt="$1"; m="$2"; id="$3"; prop="$4"
# optional: FEATURES="--features x,y" for the demo; MIRI=1 to run the demo under Miri
FEATURES="${FEATURES:-}"
if [ "${MIRI:-0}" = 1 ]; then DEMO="cargo +nightly miri test --offline $FEATURES --test demo"; else DEMO="cargo test --offline $FEATURES --test demo"; fi
export CARGO_NET_OFFLINE=true
cd "$wt" || exit 2
git checkout -q -- src 2>/dev/null; rm -rf tests/demo.rs
mkdir -p tests; cp "$m/demo.rs" tests/demo.rs
clean=$($DEMO 2>&1 | grep -E "^test result|Undefined Behavior" | head -1)
git apply "$m/patch.diff" || { echo "$id: patch does not apply"; exit 1; }
build=$(cargo build --offline --features verif-hooks,serde,ipnetwork,cidr 2>&1 | grep -cE "^error")
suite=$(cargo test --workspace --offline --lib 2>&1 | grep -E "^test result" | head -1)
doc=$(cargo test --workspace --offline --doc 2>&1 | grep -E "^test result" | head -1)
mut=$($DEMO 2>&1 | grep -E "^test result|Undefined Behavior" | head -1)
git checkout -q -- src; rm -rf tests
echo "$id: demo clean: [$clean] | demo mutated: [$mut] | suite mutated: [$suite] doc: [$doc] build errors: $build"
ok=1
echo "$clean" | grep -q "ok\." || ok=0
echo "$mut" | grep -q "FAILED\|Undefined Behavior" || ok=0
echo "$suite" | grep -q "ok\. 150 passed" || ok=0
if [ $ok = 1 ]; then
    d=/verif/seeded/$id; mkdir -p $d
    cp "$m/patch.diff" "$m/demo.rs" $d/
    cp "$m/README.md" $d/AUTHOR_README.md 2>/dev/null
    python3 - "$d" "$id" "$prop" "$clean" "$mut" "$suite" "$doc" "$DEMO" <<'PY'
import json, sys
d, id_, prop, clean, mut, suite, doc = sys.argv[1:8]
json.dump({"id": id_, "breaks_property": prop, "needs_to_manifest": "see AUTHOR_README.md",
  "confirmed": {"demo_on_clean_tree": clean, "demo_with_change": mut, "existing_suite_with_change": suite, "doctests_with_change": doc},
  "demo_command": sys.argv[8] if len(sys.argv) > 8 else "cargo test --offline --test demo",
  "what_was_run": ["demo command on the clean worktree", "git apply patch.diff", "cargo build --offline --features verif-hooks,serde,ipnetwork,cidr", "cargo test --workspace --offline --lib / --doc", "cargo test --offline --test demo"],
  "detected_by": []}, open(d + "/meta.json", "w"), indent=1)
PY
    echo "$id: CONFIRMED -> $d"
else
    echo "$id: NOT CONFIRMED"
fi
