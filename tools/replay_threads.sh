#!/bin/bash
# replay of a thread-engine violation: *.shuttle (persisted shuttle schedule) or *.miri (Miri command line)
f="$1"
case "$f" in
*.shuttle) exec ${VERIF_ROOT:-/verif}/sim/target/release/sim threads --replay "$f" ;;
*.miri)
    flags=$(grep '^MIRIFLAGS=' "$f" | head -1 | cut -d= -f2-)
    args=$(grep '^ARGS=' "$f" | head -1 | cut -d= -f2-)
    log=$(mktemp)
    (cd "${VERIF_ROOT:-/verif}/sim" && MIRIFLAGS="$flags" CARGO_NET_OFFLINE=true cargo +nightly miri run --offline --no-default-features -- $args >$log 2>&1)
    if grep -q "Undefined Behavior\|THREADS-VIOLATION" $log; then
        grep -E "Undefined Behavior|THREADS-VIOLATION" $log | head -3
        prop=$(basename "$f" | cut -d- -f1)
        echo "VIOLATION property=$prop replay=$f"; rm -f $log; exit 1
    fi
    echo "replay: no violation"; rm -f $log; exit 0 ;;
esac
exit 2
