#!/usr/bin/env python3
"""merge the evidence of the engines of one check into /verif/evidence/<id>.json

The first part is the main engine (sim); further parts are appended under coverage.engines and
their counts added to evaluations / distinct_nontrivial (each engine counts its own distinct cases)."""
import json, sys
out, parts = sys.argv[1], sys.argv[2:]
main = json.load(open(parts[0]))
engines = []
for p in parts[1:]:
    try:
        e = json.load(open(p))
    except Exception as ex:  # a missing part is a harness error
        print("merge_evidence: cannot read", p, ex)
        sys.exit(2)
    engines.append(e)
    cov = e.get("coverage", e)
    main["coverage"]["evaluations"] += int(cov.get("evaluations", 0))
    main["coverage"]["distinct_nontrivial"] += int(cov.get("distinct_nontrivial", 0))
    main["wall_s"] += float(e.get("wall_s", 0))
    main["violations"] = int(main.get("violations", 0)) + int(e.get("violations", 0))
if engines:
    main["coverage"]["engines"] = engines
json.dump(main, open(out, "w"), indent=1)
