#!/bin/bash
# pre-build the simulator for Miri (part of setup)
cd /verif/sim && MIRIFLAGS="-Zmiri-disable-isolation" CARGO_NET_OFFLINE=true cargo +nightly miri run --offline --no-default-features -- miri --from 0 --to 1 >/verif/sim/target-build-miri.log 2>&1 || { echo "miri build failed"; tail -20 /verif/sim/target-build-miri.log; exit 2; }
