#!/bin/bash
# pre-build the simulator for Miri (part of setup)
cd "${VERIF_ROOT:-/verif}/sim" && MIRIFLAGS="-Zmiri-disable-isolation" CARGO_NET_OFFLINE=true cargo +nightly miri run --offline --no-default-features -- miri --from 0 --to 1 >${VERIF_ROOT:-/verif}/sim/target-build-miri.log 2>&1 || { echo "miri build failed"; tail -20 ${VERIF_ROOT:-/verif}/sim/target-build-miri.log; exit 2; }
