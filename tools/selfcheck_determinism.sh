#!/bin/bash
# determinism self-check: per-run event-log hashes must be identical across processes and worker counts
SIM=/verif/sim/target/release/sim
runs="${1:-2000}"
fail=0
tmp=$(mktemp -d)
for p in C01 C02 C03 C04 C05 C06 C07 C08 C09 C10 C11 C12 C13 C14 C15 C16 C18 C19 C20; do
    $SIM loghash --property $p --runs $runs --threads 16 > $tmp/a
    $SIM loghash --property $p --runs $runs --threads 16 > $tmp/b
    $SIM loghash --property $p --runs $runs --threads 4 > $tmp/c
    $SIM loghash --property $p --runs $runs --threads 1 > $tmp/d
    for x in b c d; do
        if ! cmp -s $tmp/a $tmp/$x; then echo "$p: NONDETERMINISTIC (a vs $x): $(diff $tmp/a $tmp/$x | head -3)"; fail=1; fi
    done
    echo "$p: $(wc -l < $tmp/a) runs x 4 executions identical: $([ $fail = 0 ] && echo yes || echo NO)"
done
rm -rf $tmp
exit $fail
