#!/bin/bash
# thread engines of C13 / C14:  tools/threads.sh <C13|C14> <quick|thorough> <outdir>
# writes <outdir>/shuttle.json (C14 only) and <outdir>/miri.json; exit 0 / 1 (VIOLATION) / 2 (harness error)
set -u
prop="$1"; tier="$2"; out="$3"
V="${VERIF_ROOT:-/verif}"
SIM=$V/sim/target/release/sim
seed="${VERIF_SEED:-20260927}"
rc=0
if [ "$prop" = C14 ]; then
    $SIM threads --tier $tier --seed $seed --evidence $out/shuttle.json --out $V/replays
    r=$?; [ $r -gt $rc ] && rc=$r
    # auxiliary static probe (auto-trait matrix) for the compile-time clause; not simulation
    $SIM aux --evidence $out/aux.json --replays $V/replays --known $V/KNOWN_FINDINGS.txt
    r=$?; [ $r -gt $rc ] && rc=$r
fi
# ---- Miri: real threads under Miri's seeded scheduler with data-race + aliasing detection
if [ "$tier" = thorough ]; then nscn=24; seeds=48; else nscn=6; seeds=12; fi
[ "$prop" = C13 ] && { if [ "$tier" = thorough ]; then nscn=32; seeds=8; else nscn=6; seeds=4; fi; }
from=$(( (seed % 1000) * 7 ))
list=$($SIM miri --seed $seed --list $nscn --from $from) || { echo "threads.sh: harness error: scenario pre-pass failed"; exit 2; }
t0=$(date +%s.%N)
run_miri() {   # $1 = extra MIRIFLAGS, $2 = label
    local log=$out/miri-$2.log
    (cd $V/sim && MIRIFLAGS="-Zmiri-disable-isolation -Zmiri-many-seeds=0..$seeds -Zmiri-preemption-rate=0.1 $1" \
        cargo +nightly miri run --offline --no-default-features -- miri --seed $seed --only $list >$log 2>&1)
    local r=$?
    if grep -q "Undefined Behavior\|THREADS-VIOLATION" $log; then
        mkdir -p $V/replays
        local f=$V/replays/$prop-$seed-$2.miri
        { echo "# replay: ./check replay $f"; echo "MIRIFLAGS=-Zmiri-disable-isolation -Zmiri-many-seeds=0..$seeds -Zmiri-preemption-rate=0.1 $1"; echo "ARGS=miri --seed $seed --only $list"; echo "# ---- output"; grep -v "^warning\|^\s*|\|^\s*-->\|^\s*$\|^\.\.\.\|help: remove" $log | head -80; } > $f
        grep -E "Undefined Behavior|THREADS-VIOLATION|Trying seed|failed" $log | head -5
        echo "VIOLATION property=$prop replay=$f"
        return 1
    fi
    if [ $r -ne 0 ]; then echo "threads.sh: harness error: miri run failed"; tail -20 $log; return 2; fi
    grep -c "threads(std): scenarios" $log
    return 0
}
done1=$(run_miri "" sb); r=$?; echo "$done1" | tail -3; [ $r -gt $rc ] && rc=$r
execs=$(echo "$done1" | tail -1); case "$execs" in ''|*[!0-9]*) execs=0;; esac
models="stacked-borrows"
if [ "$tier" = thorough ] && [ $rc -eq 0 ]; then
    done2=$(run_miri "-Zmiri-tree-borrows" tb); r=$?; echo "$done2" | tail -3; [ $r -gt $rc ] && rc=$r
    e2=$(echo "$done2" | tail -1); case "$e2" in ''|*[!0-9]*) e2=0;; esac
    execs=$((execs + e2)); models="stacked-borrows, tree-borrows"
fi
# ---- C13: single-threaded scripts under Miri's aliasing checker (held references, `*_mut` set
# operations against other containers); one Miri process per script range, in parallel
scripts_done=0
if [ "$prop" = C13 ] && [ $rc -eq 0 ]; then
    if [ "$tier" = thorough ]; then per=6; targeted=""; else per=1; targeted="--targeted"; fi
    base=$(( (seed % 1000) * 16 ))
    slog=$out/miri-scripts.log
    seq 0 15 | xargs -P 16 -I{} sh -c "cd $V/sim && MIRIFLAGS='-Zmiri-disable-isolation' cargo +nightly miri run --offline --no-default-features -- miri --scripts $targeted --seed $seed --from \$(( $base + {} * $per )) --to \$(( $base + {} * $per + $per )) 2>&1" > $slog
    if grep -q "Undefined Behavior\|THREADS-VIOLATION" $slog; then
        mkdir -p $V/replays
        bad=$(grep -B200 -m1 "Undefined Behavior\|THREADS-VIOLATION" $slog | grep -o "miri --scripts.*--to [0-9]*" | tail -1)
        f=$V/replays/$prop-$seed-scripts.miri
        { echo "# replay: ./check replay $f"; echo "MIRIFLAGS=-Zmiri-disable-isolation"; echo "ARGS=miri --scripts $targeted --seed $seed --from $base --to $(( base + 16 * per ))"; echo "# ---- output"; grep -v "^warning\|^\s*|\|^\s*-->\|^\s*$\|^\.\.\.\|help: remove" $slog | grep -A30 -m1 "Undefined Behavior\|THREADS-VIOLATION" | head -60; } > $f
        grep -E "Undefined Behavior|THREADS-VIOLATION" $slog | head -3
        echo "VIOLATION property=$prop replay=$f"
        rc=1
    else
        scripts_done=$(grep -c "scripts(miri): scripts" $slog)
        if [ "$scripts_done" -lt 16 ]; then echo "threads.sh: harness error: only $scripts_done of 16 Miri script processes finished"; tail -5 $slog; [ $rc -lt 2 ] && rc=2; fi
        scripts_done=$(( scripts_done * per ))
        echo "miri scripts: $scripts_done ok"
    fi
fi
t1=$(date +%s.%N)
python3 - "$out/miri.json" "$list" "$execs" "$seeds" "$models" "$t0" "$t1" "$rc" "$scripts_done" <<'PY'
import json, sys
out, lst, execs, seeds, models, t0, t1, rc, scripts_done = sys.argv[1:]
scn = [int(x) for x in lst.split(",") if x]
json.dump({
  "engine": "Miri (cargo +nightly miri run, -Zmiri-many-seeds, preemption rate 0.1): real std threads under Miri's seeded scheduler; data-race and aliasing (" + models + ") detection inside the library's unsafe code",
  "wall_s": float(t1) - float(t0),
  "violations": 1 if rc == "1" else 0,
  "coverage": {
    "evaluations": int(execs) * len(scn) + int(scripts_done),
    "distinct_nontrivial": len(scn) + int(scripts_done),
    "single_threaded_scripts_under_miri": int(scripts_done),
    "rule": "one evaluation = one scenario (map + workers on disjoint mutable views, holding yielded references while other views are read) under one Miri scheduler seed; distinct non-trivial = distinct scenarios with >= 2 workers and >= 3 entries (selected by a native pre-pass)",
    "scenarios": scn, "miri_seeds_per_scenario": int(seeds), "program_executions_completed": int(execs), "aliasing_models": models,
    "fault_kinds_fired": {"preempt (Miri scheduler preemption, rate 0.1)": "not countable from outside Miri"}
  }
}, open(out, "w"), indent=1)
PY
exit $rc
