//! C14 thread engine (shuttle) - placeholder until implemented.
use std::collections::BTreeMap;
pub fn cmd_threads(_opts: &BTreeMap<String, String>) -> i32 {
    eprintln!("threads: not implemented yet");
    2
}
