//! C14 (and C13 under Miri): worker threads operating on disjoint mutable views of one map.
//!
//! One scenario generator, two thread engines:
//!  - `std`     real `std::thread::scope` threads; meant to be executed under Miri, whose seeded
//!              scheduler (`-Zmiri-many-seeds`, preemption) decides the interleaving and whose
//!              data-race / aliasing detectors are the oracle for the `unsafe` code;
//!  - `shuttle` (feature `threads`) shuttle threads; a scheduling point sits at every arena access
//!              (hook H2) and seeded Random / PCT schedulers decide who runs; a failing schedule
//!              is persisted and replayable.
//! The functional oracle is the same in both: the final map equals the one obtained by applying
//! the workers' scripts sequentially (they commute on disjoint views).

use crate::ctx::{Abort, Ctx, Stats, Violation};
use crate::exec::World;
use crate::key::Key;
use crate::ptypes::SimPrefix;
use crate::script::*;
use crate::sessions::{run_session, Exp};
use crate::truth::{truth_of, Ent, Truth};
use crate::val::Val;
use prefix_trie::{AsViewMut, PrefixMap, TrieViewMut};
use std::collections::BTreeMap;
use std::sync::Arc;

#[derive(Clone, Copy, PartialEq, Eq, Debug)]
pub enum Engine {
    /// workers one after the other on the calling thread (deterministic pre-pass)
    Seq,
    Std,
    #[cfg(feature = "threads")]
    Shuttle,
}

pub struct ScnOut {
    pub workers: usize,
    pub entries: usize,
    pub stats: Stats,
    /// final contents (key, value) of the map
    pub final_ents: Vec<(Key, u64)>,
}

fn new_ctx(prop: &str, salt: u64) -> Ctx {
    Ctx { prop: prop.to_string(), step: 0, stats: Stats::default(), salt, fuel: 5_000_000, known_hits: vec![], known: Arc::new(vec![]), rare: 0, also: vec!["C13", "C14", "C01"] }
}

type WorkerResult = Result<(Key, Exp, Stats), Abort>;

fn worker<P: SimPrefix>(view: TrieViewMut<'_, P, Val>, root: Key, acts: &[MAct], t0: &Truth, engine: Engine, wi: usize) -> WorkerResult {
    #[cfg(feature = "threads")]
    if engine == Engine::Shuttle {
        prefix_trie::verif_hooks::set_yield(Some(shuttle_yield));
    }
    let _ = engine;
    let mut ctx = new_ctx("C14", 0x77 + wi as u64);
    let r = run_session(&mut ctx, None, 0, view, root, t0, acts);
    r.map(|(exp, _, _)| (root, exp, ctx.stats))
}

#[cfg(feature = "threads")]
static YIELDS: std::sync::atomic::AtomicU64 = std::sync::atomic::AtomicU64::new(0);

#[cfg(feature = "threads")]
fn shuttle_yield() {
    YIELDS.fetch_add(1, std::sync::atomic::Ordering::Relaxed);
    // sleep(0), not yield_now: under PCT a yield only lowers the priority once
    shuttle::thread::sleep(std::time::Duration::from_nanos(0));
}

pub fn exec_scn(scn: &ThreadScn, engine: Engine) -> Result<ScnOut, Violation> {
    crate::with_ptype!(scn.script.cfg.ptype, exec_scn_typed(scn, engine))
}

fn exec_scn_typed<P: SimPrefix>(scn: &ThreadScn, engine: Engine) -> Result<ScnOut, Violation> {
    crate::val::reset_registry();
    prefix_trie::verif_hooks::set_fuel(u64::MAX);
    prefix_trie::verif_hooks::set_yield(None);
    let viol = |sig: String, detail: String| Violation { property: "C14".into(), sig, step: 0, detail };
    let to_v = |a: Abort| match a {
        Abort::Violation(v) => viol(format!("C14:threads:{}", v.sig), format!("[{}] {}", v.property, v.detail)),
        Abort::Foreign(s) => viol(format!("C14:threads:foreign:{s}"), s),
    };
    // 1. build-up on one thread
    let mut ctx = new_ctx("C14", scn.script.seed);
    let mut w: World<P> = World::new(&scn.script.cfg);
    for (i, st) in scn.script.steps.iter().enumerate() {
        ctx.step = i;
        w.exec(&mut ctx, st).map_err(to_v)?;
        w.truths = w.all_truths();
    }
    let t0 = w.truths[0].clone();
    let mut real: PrefixMap<P, Val> = std::mem::take(&mut w.maps[0].real);
    // declared after the containers: on unwind the scheduling hook is removed before they drop
    struct YieldGuard;
    impl Drop for YieldGuard {
        fn drop(&mut self) {
            prefix_trie::verif_hooks::set_yield(None);
        }
    }
    let _guard = YieldGuard;
    let mut stats = ctx.stats;
    let nworkers;
    let merged: BTreeMap<Key, (crate::key::Raw, u64)>;
    {
        // 2. cut the whole-map view into disjoint views
        let mut pool: Vec<(TrieViewMut<'_, P, Val>, Key)> = vec![((&mut real).view_mut(), Key::ZERO)];
        fn put<'v, P: SimPrefix>(pool: &mut Vec<(TrieViewMut<'v, P, Val>, Key)>, v: TrieViewMut<'v, P, Val>, parent: Key) {
            let region = crate::views::narrow(parent, v.prefix().raw().key());
            pool.push((v, region));
        }
        for c in &scn.cuts {
            let n = pool.len();
            if n == 0 {
                break;
            }
            match c {
                MAct::Split(i) => {
                    let (v, d) = pool.swap_remove(*i as usize % n);
                    let (l, r) = v.split();
                    if let Some(l) = l {
                        put(&mut pool, l, d);
                    }
                    if let Some(r) = r {
                        put(&mut pool, r, d);
                    }
                }
                MAct::Left(i) => {
                    let (v, d) = pool.swap_remove(*i as usize % n);
                    put(&mut pool, v.left().unwrap_or_else(|o| o), d);
                }
                MAct::Right(i) => {
                    let (v, d) = pool.swap_remove(*i as usize % n);
                    put(&mut pool, v.right().unwrap_or_else(|o| o), d);
                }
                MAct::Find(i, q) => {
                    let (v, d) = pool.swap_remove(*i as usize % n);
                    put(&mut pool, v.find(P::make(*q)).unwrap_or_else(|o| o), d);
                }
                _ => {}
            }
        }
        pool.truncate(scn.workers.len());
        nworkers = pool.len();
        // 3. one worker per view
        let t0r = &t0;
        let results: Vec<WorkerResult> = match engine {
            Engine::Seq => pool.into_iter().zip(scn.workers.iter()).enumerate().map(|(wi, ((v, d), a))| worker(v, d, a, t0r, engine, wi)).collect(),
            Engine::Std => std::thread::scope(|s| {
                let hs: Vec<_> = pool.into_iter().zip(scn.workers.iter()).enumerate().map(|(wi, ((v, d), a))| s.spawn(move || worker(v, d, a, t0r, engine, wi))).collect();
                hs.into_iter().map(|h| h.join().expect("worker thread panicked")).collect()
            }),
            #[cfg(feature = "threads")]
            Engine::Shuttle => shuttle::thread::scope(|s| {
                let hs: Vec<_> = pool.into_iter().zip(scn.workers.iter()).enumerate().map(|(wi, ((v, d), a))| s.spawn(move || worker(v, d, a, t0r, engine, wi))).collect();
                hs.into_iter().map(|h| h.join().expect("worker thread panicked")).collect()
            }),
        };
        prefix_trie::verif_hooks::set_yield(None);
        // 4. sequential model: every worker's expectation, restricted to its own view
        let mut m: BTreeMap<Key, (crate::key::Raw, u64)> = t0.ents.iter().map(|e| (e.key, (e.raw, e.v))).collect();
        let mut roots: Vec<Key> = vec![];
        for r in results {
            let (root, exp, st) = r.map_err(to_v)?;
            stats.merge(&st);
            for other in &roots {
                if other.covers(root) || root.covers(*other) {
                    return Err(viol("C14:threads:views-overlap".into(), format!("two workers were handed overlapping mutable views: {other} and {root}")));
                }
            }
            roots.push(root);
            m.retain(|k, _| !root.covers(*k));
            for (k, x) in exp {
                if root.covers(k) {
                    m.insert(k, x);
                }
            }
        }
        merged = m;
    }
    // 5. the final map equals the sequential outcome
    let t1 = truth_of(&real.verif_snapshot());
    let exp: Vec<Ent> = merged.iter().map(|(k, x)| Ent { key: *k, raw: x.0, v: x.1 }).collect();
    let core = |v: &[Ent]| v.iter().map(|e| (e.key, e.v)).collect::<Vec<_>>();
    if core(&t1.ents) != core(&exp) {
        return Err(viol("C14:threads:final-map-differs-from-sequential".into(), format!("after {nworkers} workers on disjoint views: entries {:?}, sequential application gives {:?}", t1.ents, exp)));
    }
    if real.len() != t1.ents.len() {
        return Err(viol("C14:threads:len-after-concurrent-mutation".into(), format!("after {nworkers} workers: len() = {} but {} entries are stored", real.len(), t1.ents.len())));
    }
    let shape = |t: &Truth| t.nodes.iter().map(|n| (n.raw.key(), n.left, n.right)).collect::<Vec<_>>();
    if shape(&t0) != shape(&t1) {
        return Err(viol("C14:threads:shape-changed".into(), "operations through mutable views changed the tree shape".into()));
    }
    drop(real);
    drop(w);
    Ok(ScnOut { workers: nworkers, entries: t1.ents.len(), stats, final_ents: core(&t1.ents) })
}

/// `sim miri --seed S --from A --to B`: scenarios A..B on real threads (run this under Miri)
pub fn cmd_std(opts: &BTreeMap<String, String>) -> i32 {
    let seed: u64 = opts.get("seed").and_then(|s| s.parse().ok()).unwrap_or(20260927);
    let from: u64 = opts.get("from").and_then(|s| s.parse().ok()).unwrap_or(0);
    let to: u64 = opts.get("to").and_then(|s| s.parse().ok()).unwrap_or(4);
    let small = !opts.contains_key("large");
    crate::ctx::set_quiet(true);
    let mut workers = 0;
    let mut multi = 0;
    let only: Option<Vec<u64>> = opts.get("only").map(|s| s.split(',').filter_map(|x| x.parse().ok()).collect());
    if opts.contains_key("list") {
        // native pre-pass: print the indices of the scenarios with >= 2 workers and >= 2 entries
        let want: usize = opts.get("list").and_then(|s| s.parse().ok()).unwrap_or(8);
        let mut out = vec![];
        let mut idx = from;
        while out.len() < want && idx < from + 100_000 {
            let scn = gen_thread_scn(seed, idx, small);
            if let Ok(o) = exec_scn(&scn, Engine::Seq) {
                if o.workers >= 2 && o.entries >= 2 {
                    out.push(idx.to_string());
                }
            }
            idx += 1;
        }
        println!("{}", out.join(","));
        return 0;
    }
    if opts.contains_key("scripts") {
        // ordinary single-threaded scripts of the C13 family (held references, `*_mut` set
        // operations against other containers) - meant to run under Miri's aliasing checker
        let known = Arc::new(vec![]);
        let params = GenParams { property: "C13".into(), tier_thorough: false, profile: "miri".into() };
        let mut steps = 0;
        crate::run::set_lean(true);
        for idx in from..to {
            // even indices: targeted `*_mut` set-operation scripts; odd: ordinary C13 scripts
            let s = if idx % 2 == 0 || opts.contains_key("targeted") {
                gen_setop_mut_script(seed, idx)
            } else {
                let mut s = generate(seed, &params, idx);
                s.steps.truncate(if small { 25 } else { 60 });
                s
            };
            let r = crate::run::run_script(&s, known.clone());
            steps += r.steps_done;
            if let crate::run::Outcome::Violation(v) = r.outcome {
                println!("scripts(miri): violation sig={} script={idx} :: {}", v.sig, v.detail);
                println!("THREADS-VIOLATION seed={seed} scenario={idx} sig={}", v.sig);
                return 1;
            }
        }
        println!("scripts(miri): scripts {from}..{to} ok, {steps} steps");
        return 0;
    }
    let list: Vec<u64> = only.unwrap_or_else(|| (from..to).collect());
    let (from, to) = (list.first().copied().unwrap_or(0), list.last().copied().unwrap_or(0));
    for idx in list.iter().copied() {
        let scn = gen_thread_scn(seed, idx, small);
        let seq = exec_scn(&scn, Engine::Seq).ok().map(|o| o.final_ents);
        match exec_scn(&scn, Engine::Std) {
            Ok(o) => {
                workers += o.workers;
                if o.workers >= 2 && o.entries >= 2 {
                    multi += 1;
                }
                if let Some(s) = &seq {
                    if *s != o.final_ents {
                        println!("threads(std): violation sig=C14:threads:concurrent-differs-from-sequential-run scenario={idx} :: workers on threads leave {:?}, the same workers one after the other leave {:?}", o.final_ents, s);
                        println!("THREADS-VIOLATION seed={seed} scenario={idx} sig=C14:threads:concurrent-differs-from-sequential-run");
                        return 1;
                    }
                }
            }
            Err(v) => {
                println!("threads(std): violation sig={} scenario={idx} :: {}", v.sig, v.detail);
                println!("THREADS-VIOLATION seed={seed} scenario={idx} sig={}", v.sig);
                return 1;
            }
        }
    }
    println!("threads(std): scenarios {from}..{to} ok, {workers} workers, {multi} scenarios with >=2 workers and >=2 entries");
    0
}

#[cfg(feature = "threads")]
pub fn cmd_threads(opts: &BTreeMap<String, String>) -> i32 {
    use shuttle::scheduler::{PctScheduler, RandomScheduler, ReplayScheduler};
    use shuttle::{Config, FailurePersistence, Runner};
    let seed: u64 = opts.get("seed").cloned().or_else(|| std::env::var("VERIF_SEED").ok()).and_then(|s| s.parse().ok()).unwrap_or(20260927);
    let thorough = opts.get("tier").map(|t| t == "thorough").unwrap_or(false);
    let nscn: u64 = opts.get("scenarios").and_then(|s| s.parse().ok()).unwrap_or(if thorough { 4000 } else { 400 });
    let n_rand: usize = opts.get("random").and_then(|s| s.parse().ok()).unwrap_or(if thorough { 600 } else { 150 });
    let n_pct: usize = opts.get("pct").and_then(|s| s.parse().ok()).unwrap_or(if thorough { 200 } else { 50 });
    let out_dir = opts.get("out").cloned().unwrap_or_else(|| "/verif/replays".into());
    let evidence = opts.get("evidence").cloned();
    let t0 = std::time::Instant::now();
    crate::ctx::set_quiet(true);
    let _ = std::fs::create_dir_all(&out_dir);
    // replay mode
    if let Some(file) = opts.get("replay") {
        let txt = std::fs::read_to_string(file).expect("read replay file");
        let rf: serde_json::Value = serde_json::from_str(&txt).expect("parse replay file");
        let scn: ThreadScn = serde_json::from_value(rf["scenario"].clone()).expect("scenario");
        let sched = rf["schedule"].as_str().unwrap_or("").to_string();
        if sched.is_empty() {
            // found in the sequential pre-pass (workers one after the other): no schedule to replay
            return match exec_scn(&scn, Engine::Seq) {
                Err(v) => {
                    println!("replay: violation sig={} :: {}", v.sig, v.detail);
                    println!("VIOLATION property=C14 replay={file}");
                    1
                }
                Ok(_) => {
                    println!("replay: no violation");
                    0
                }
            };
        }
        let failed: Arc<std::sync::Mutex<Option<Violation>>> = Arc::new(std::sync::Mutex::new(None));
        let f2 = failed.clone();
        let scn2 = Arc::new(scn);
        let mut cfg = Config::new();
        cfg.stack_size = 1 << 21;
        cfg.failure_persistence = FailurePersistence::None;
        let r = std::panic::catch_unwind(std::panic::AssertUnwindSafe(|| {
            let seq = exec_scn(&scn2, Engine::Seq).ok().map(|o| o.final_ents);
            Runner::new(ReplayScheduler::new_from_encoded(&sched), cfg).run(move || match exec_scn(&scn2, Engine::Shuttle) {
                Err(v) => {
                    *f2.lock().unwrap() = Some(v);
                    panic!("violation");
                }
                Ok(o) => {
                    if let Some(s) = &seq {
                        if *s != o.final_ents {
                            *f2.lock().unwrap() = Some(Violation { property: "C14".into(), sig: "C14:threads:concurrent-differs-from-sequential-run".into(), step: 0, detail: format!("this schedule leaves {:?}, the same workers one after the other leave {:?}", o.final_ents, s) });
                            panic!("violation");
                        }
                    }
                }
            });
        }));
        let v = failed.lock().unwrap().clone();
        return match (r, v) {
            (_, Some(v)) => {
                println!("replay: violation sig={} :: {}", v.sig, v.detail);
                println!("VIOLATION property=C14 replay={file}");
                1
            }
            (Ok(()), None) => {
                println!("replay: no violation");
                0
            }
            (Err(_), None) => {
                // the recorded schedule does not fit this build's execution any more (other number of
                // scheduling points): the recorded violation is not reproduced
                println!("replay: no violation (the recorded schedule no longer applies: the execution takes another path)");
                0
            }
        };
    }
    let mut schedules = 0u64;
    let mut scen_multi = 0u64;
    let mut stats = Stats::default();
    let threads: usize = opts.get("threads").and_then(|s| s.parse().ok()).unwrap_or(16);
    // scenarios are distributed over OS threads; inside one scenario shuttle owns the schedule
    let results: Vec<(u64, u64, bool, Option<(Violation, String, ThreadScn)>, Stats)> = std::thread::scope(|s| {
        let hs: Vec<_> = (0..threads)
            .map(|tid| {
                let out_dir = out_dir.clone();
                s.spawn(move || {
                    crate::ctx::set_quiet(true);
                    let mut res = vec![];
                    let mut idx = tid as u64;
                    while idx < nscn {
                        let scn = Arc::new(gen_thread_scn(seed, idx, false));
                        // sequential pre-pass: scenarios that end up with a single worker have
                        // no interleaving to explore (and PCT refuses them)
                        let mut seq_final: Option<Vec<(Key, u64)>> = None;
                        let multi = match exec_scn(&scn, Engine::Seq) {
                            Ok(o) => {
                                seq_final = Some(o.final_ents.clone());
                                o.workers >= 2
                            }
                            Err(v) => {
                                res.push((idx, 0, false, Some((v, String::new(), (*scn).clone())), Stats::default()));
                                break;
                            }
                        };
                        if !multi {
                            res.push((idx, 0, false, None, Stats::default()));
                            idx += threads as u64;
                            continue;
                        }
                        let mut done = 0u64;
                        let mut found = None;
                        let st_acc: Arc<std::sync::Mutex<Stats>> = Arc::new(std::sync::Mutex::new(Stats::default()));
                        for (kind, iters) in [("random", n_rand), ("pct", n_pct)] {
                            if iters == 0 {
                                continue;
                            }
                            let failed: Arc<std::sync::Mutex<Option<Violation>>> = Arc::new(std::sync::Mutex::new(None));
                            let (f2, scn2, st2) = (failed.clone(), scn.clone(), st_acc.clone());
                            let dir = format!("{out_dir}/.shuttle-{seed}-{idx}-{kind}");
                            let _ = std::fs::create_dir_all(&dir);
                            let mut cfg = Config::new();
                            cfg.stack_size = 1 << 21;
                            cfg.failure_persistence = FailurePersistence::File(Some(dir.clone().into()));
                            cfg.silence_warnings = true;
                            let sseed = crate::rng::mix64(seed ^ idx.wrapping_mul(0x9E37_79B9));
                            let seq2 = seq_final.clone();
                            let f3 = failed.clone();
                            let body = move || match exec_scn(&scn2, Engine::Shuttle) {
                                Ok(o) => {
                                    if let Some(s) = &seq2 {
                                        if *s != o.final_ents {
                                            *f3.lock().unwrap() = Some(Violation { property: "C14".into(), sig: "C14:threads:concurrent-differs-from-sequential-run".into(), step: 0, detail: format!("this schedule leaves {:?}, the same workers one after the other leave {:?}", o.final_ents, s) });
                                            panic!("violation");
                                        }
                                    }
                                    let mut g = st2.lock().unwrap();
                                    if g.steps == 0 {
                                        g.merge(&o.stats);
                                        g.steps = 1;
                                    }
                                }
                                Err(v) => {
                                    *f2.lock().unwrap() = Some(v);
                                    panic!("violation");
                                }
                            };
                            let r = std::panic::catch_unwind(std::panic::AssertUnwindSafe(|| {
                                if kind == "random" {
                                    Runner::new(RandomScheduler::new_from_seed(sseed, iters), cfg).run(body);
                                } else {
                                    Runner::new(PctScheduler::new_from_seed(sseed, 3, iters), cfg).run(body);
                                }
                            }));
                            let v = failed.lock().unwrap().clone();
                            if r.is_err() || v.is_some() {
                                // pick up the persisted schedule
                                let mut sched = String::new();
                                if let Ok(rd) = std::fs::read_dir(&dir) {
                                    for e in rd.flatten() {
                                        if let Ok(t) = std::fs::read_to_string(e.path()) {
                                            sched = t.trim().to_string();
                                        }
                                    }
                                }
                                let v = v.unwrap_or_else(|| Violation { property: "C14".into(), sig: "C14:threads:panic-under-shuttle".into(), step: 0, detail: format!("{:?}", crate::ctx::take_last_panic()) });
                                found = Some((v, sched, (*scn).clone()));
                                let _ = std::fs::remove_dir_all(&dir);
                                break;
                            }
                            let _ = std::fs::remove_dir_all(&dir);
                            done += iters as u64;
                        }
                        let st = st_acc.lock().unwrap().clone();
                        let stop = found.is_some();
                        res.push((idx, done, multi, found, st));
                        if stop {
                            break;
                        }
                        idx += threads as u64;
                    }
                    res
                })
            })
            .collect();
        hs.into_iter().flat_map(|h| h.join().expect("scenario thread")).collect()
    });
    let mut first: Option<(u64, Violation, String, ThreadScn)> = None;
    let mut scen = 0u64;
    for (idx, done, multi, found, st) in results {
        scen += 1;
        schedules += done;
        if multi {
            scen_multi += 1;
        }
        stats.merge(&st);
        if let Some((v, s, scn)) = found {
            if first.as_ref().map(|f| idx < f.0).unwrap_or(true) {
                first = Some((idx, v, s, scn));
            }
        }
    }
    let mut code = 0;
    let mut vinfo = serde_json::Value::Null;
    if let Some((idx, v, sched, scn)) = first {
        let path = format!("{out_dir}/C14-{seed}-{idx}.shuttle");
        let rf = serde_json::json!({"property": "C14", "signature": v.sig, "detail": v.detail, "engine": "shuttle", "schedule": sched, "scenario": scn});
        std::fs::write(&path, serde_json::to_string_pretty(&rf).unwrap()).expect("write replay");
        println!("violation: {} in scenario {idx}: {}", v.sig, v.detail.chars().take(500).collect::<String>());
        // confirm in a fresh process
        let exe = std::env::current_exe().expect("exe");
        let out = std::process::Command::new(exe).arg("threads").arg("--replay").arg(&path).output();
        let confirmed = matches!(&out, Ok(o) if o.status.code() == Some(1));
        println!("replay of the persisted schedule confirmed in a fresh process: {confirmed}");
        if confirmed {
            println!("VIOLATION property=C14 replay={path}");
            code = 1;
        } else {
            eprintln!("threads: harness error: persisted schedule did not reproduce");
            code = 2;
        }
        vinfo = serde_json::json!({"signature": v.sig, "scenario": idx, "replay": path, "confirmed": confirmed});
    }
    let wall = t0.elapsed().as_secs_f64();
    println!("threads(shuttle): {scen} scenarios ({scen_multi} with >=2 workers), {schedules} schedules, {} scheduling points, {wall:.1}s", YIELDS.load(std::sync::atomic::Ordering::Relaxed));
    if let Some(ev) = evidence {
        let counters: BTreeMap<String, u64> = stats.counters.iter().map(|(k, v)| (k.to_string(), *v)).collect();
        let e = serde_json::json!({
            "engine": "shuttle 0.9.3 (seeded RandomScheduler + PctScheduler depth 3); scheduling point at every arena access (hook H2)",
            "wall_s": wall,
            "violations": if code == 1 { 1 } else { 0 },
            "coverage": {
                "evaluations": schedules,
                "distinct_nontrivial": scen_multi,
                "rule": "one evaluation = one schedule of one scenario (map + 2-4 workers on disjoint mutable views); distinct non-trivial = distinct scenarios with >= 2 workers (schedules of one scenario are drawn from seeded schedulers and not de-duplicated, so they are not counted as distinct)",
                "scenarios": scen,
                "schedules": schedules,
                "random_schedules_per_scenario": n_rand,
                "pct_schedules_per_scenario": n_pct,
                "fault_kinds_fired": {"preempt (scheduling point offered to the scheduler at an arena access)": YIELDS.load(std::sync::atomic::Ordering::Relaxed)},
                "probes_first_schedule_of_each_scenario": counters,
                "violation": vinfo,
            }
        });
        std::fs::write(ev, serde_json::to_string_pretty(&e).unwrap()).expect("write evidence");
    }
    code
}
