//! KNOWN_FINDINGS.txt: genuine defects recorded rather than repaired. Read-only at run time.
//!
//! Format, one per line:
//!   finding: property=<id> sig=<signature> <free text: what fails>
//!   fixed: property=<id> <commit> <what failed>            (informational, suppresses nothing)

#[derive(Clone, Debug)]
pub struct Finding {
    pub property: String,
    pub sig: String,
    pub text: String,
}

pub fn load(path: &str) -> Vec<Finding> {
    let Ok(s) = std::fs::read_to_string(path) else { return vec![] };
    let mut out = vec![];
    for line in s.lines() {
        let line = line.trim();
        let Some(rest) = line.strip_prefix("finding:") else { continue };
        let mut property = String::new();
        let mut sig = String::new();
        let mut text = vec![];
        for tok in rest.split_whitespace() {
            if let Some(p) = tok.strip_prefix("property=") {
                property = p.to_string();
            } else if let Some(s) = tok.strip_prefix("sig=") {
                sig = s.to_string();
            } else {
                text.push(tok);
            }
        }
        if !property.is_empty() && !sig.is_empty() {
            out.push(Finding { property, sig, text: text.join(" ") });
        }
    }
    out
}

pub fn matches<'a>(known: &'a [Finding], property: &str, sig: &str) -> Option<&'a Finding> {
    known.iter().find(|f| f.property == property && f.sig == sig)
}
