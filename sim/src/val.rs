//! The value type stored in the maps under test, with a thread-local registry of live instances
//! (conservation: every instance is dropped exactly once), and the callback fault plan.

use serde::{Deserialize, Deserializer, Serialize, Serializer};
use std::cell::{Cell, RefCell};
use std::collections::BTreeSet;

pub const DEFAULT_PAYLOAD: u64 = 0xD0D0_D0D0;

thread_local! {
    static NEXT_ID: Cell<u64> = const { Cell::new(1) };
    static LIVE: RefCell<BTreeSet<u64>> = const { RefCell::new(BTreeSet::new()) };
    static REG_ERRORS: RefCell<Vec<String>> = const { RefCell::new(Vec::new()) };
    /// countdown to the injected callback panic: Some(k) = the k-th next callback invocation panics
    static FAULT: Cell<Option<u32>> = const { Cell::new(None) };
    static CALLBACKS: Cell<u64> = const { Cell::new(0) };
    static FAULTS_FIRED: Cell<u64> = const { Cell::new(0) };
}

pub const INJECTED: &str = "sim: injected callback panic";

/// Every user callback handed to the library calls this first.
pub fn callback_point() {
    CALLBACKS.with(|c| c.set(c.get() + 1));
    let f = FAULT.with(|f| f.get());
    if let Some(k) = f {
        if k == 0 {
            FAULT.with(|f| f.set(None));
            FAULTS_FIRED.with(|c| c.set(c.get() + 1));
            panic!("{}", INJECTED);
        }
        FAULT.with(|f| f.set(Some(k - 1)));
    }
}
pub fn arm_fault(k: Option<u32>) {
    FAULT.with(|f| f.set(k))
}
pub fn fault_armed() -> bool {
    FAULT.with(|f| f.get()).is_some()
}
pub fn callbacks() -> u64 {
    CALLBACKS.with(|c| c.get())
}
pub fn faults_fired() -> u64 {
    FAULTS_FIRED.with(|c| c.get())
}

pub fn reset_registry() {
    NEXT_ID.with(|n| n.set(1));
    LIVE.with(|l| l.borrow_mut().clear());
    REG_ERRORS.with(|e| e.borrow_mut().clear());
    FAULT.with(|f| f.set(None));
    CALLBACKS.with(|c| c.set(0));
    FAULTS_FIRED.with(|c| c.set(0));
}
pub fn live_count() -> usize {
    LIVE.with(|l| l.borrow().len())
}
pub fn is_live(id: u64) -> bool {
    LIVE.with(|l| l.borrow().contains(&id))
}
pub fn take_registry_errors() -> Vec<String> {
    REG_ERRORS.with(|e| std::mem::take(&mut *e.borrow_mut()))
}

#[derive(Debug)]
pub struct Val {
    pub id: u64,
    pub payload: u64,
}

impl Val {
    pub fn new(payload: u64) -> Val {
        let id = NEXT_ID.with(|n| {
            let id = n.get();
            n.set(id + 1);
            id
        });
        LIVE.with(|l| l.borrow_mut().insert(id));
        Val { id, payload }
    }
}
impl Clone for Val {
    fn clone(&self) -> Self {
        Val::new(self.payload)
    }
}
impl Default for Val {
    fn default() -> Self {
        callback_point();
        Val::new(DEFAULT_PAYLOAD)
    }
}
impl PartialEq for Val {
    fn eq(&self, o: &Self) -> bool {
        self.payload == o.payload
    }
}
impl Eq for Val {}
impl Drop for Val {
    fn drop(&mut self) {
        let ok = LIVE.with(|l| l.borrow_mut().remove(&self.id));
        if !ok {
            REG_ERRORS.with(|e| e.borrow_mut().push(format!("value instance {} (payload {}) dropped twice or never created", self.id, self.payload)));
        }
    }
}
impl Serialize for Val {
    fn serialize<S: Serializer>(&self, s: S) -> Result<S::Ok, S::Error> {
        s.serialize_u64(self.payload)
    }
}
impl<'de> Deserialize<'de> for Val {
    fn deserialize<D: Deserializer<'de>>(d: D) -> Result<Self, D::Error> {
        Ok(Val::new(u64::deserialize(d)?))
    }
}

/// What the oracles need from a value type.
pub trait SimVal: PartialEq + std::fmt::Debug + Send + Sync + 'static {
    const IS_ZST: bool;
    fn snap(&self) -> u64;
}
impl SimVal for Val {
    const IS_ZST: bool = false;
    fn snap(&self) -> u64 {
        self.payload
    }
}
impl SimVal for () {
    const IS_ZST: bool = true;
    fn snap(&self) -> u64 {
        0
    }
}
