//! Ground truth about a map's state, read from the arena snapshot hook (H1), and the small
//! reference functions (LPM, SPM, cover, children, PATRICIA shape) all oracles are built from.

use crate::key::{Key, Raw};
use crate::ptypes::SimPrefix;
use crate::val::SimVal;
use prefix_trie::map::VerifSnapshot;
use std::collections::BTreeSet;

#[derive(Clone, Debug, PartialEq, Eq)]
pub struct Ent {
    pub key: Key,
    pub raw: Raw,
    pub v: u64,
}

#[derive(Clone, Debug, PartialEq, Eq)]
pub struct NodeInfo {
    pub raw: Raw,
    pub has_value: bool,
    pub v: u64,
    pub left: Option<usize>,
    pub right: Option<usize>,
}

#[derive(Clone, Debug, Default, PartialEq, Eq)]
pub struct Truth {
    /// valued nodes reachable from slot 0, sorted by key
    pub ents: Vec<Ent>,
    pub nodes: Vec<NodeInfo>,
    pub free: Vec<usize>,
    pub count: usize,
    pub reachable: Vec<bool>,
    pub n_reachable: usize,
    /// structural problems of the arena graph itself (cycle, dangling index, shared child)
    pub walk_errors: Vec<String>,
    /// hash of the reachable shape in DFS order (key, has_value, has_left, has_right)
    pub shape_hash: u64,
}

pub fn truth_of<P: SimPrefix, T: SimVal>(s: &VerifSnapshot<'_, P, T>) -> Truth {
    let nodes: Vec<NodeInfo> = s
        .slots
        .iter()
        .map(|n| NodeInfo {
            raw: n.prefix.raw(),
            has_value: n.value.is_some(),
            v: n.value.map(|v| v.snap()).unwrap_or(0),
            left: n.left,
            right: n.right,
        })
        .collect();
    let mut reachable = vec![false; nodes.len()];
    let mut walk_errors = vec![];
    let mut ents = vec![];
    let mut stack = vec![0usize];
    let mut n_reachable = 0;
    let mut shape_hash = 0u64;
    while let Some(i) = stack.pop() {
        if i >= nodes.len() {
            walk_errors.push(format!("child index {i} out of range (arena len {})", nodes.len()));
            continue;
        }
        if reachable[i] {
            walk_errors.push(format!("slot {i} reachable twice (cycle or shared child)"));
            continue;
        }
        reachable[i] = true;
        n_reachable += 1;
        let n = &nodes[i];
        {
            let k = n.raw.key();
            let mut h = shape_hash ^ (k.bits as u64) ^ ((k.bits >> 64) as u64).rotate_left(17) ^ ((k.len as u64) << 56);
            h ^= (n.has_value as u64) | (n.left.is_some() as u64) << 1 | (n.right.is_some() as u64) << 2;
            shape_hash = crate::rng::mix64(h);
        }
        if n.has_value {
            ents.push(Ent { key: n.raw.key(), raw: n.raw, v: n.v });
        }
        if let Some(r) = n.right {
            stack.push(r);
        }
        if let Some(l) = n.left {
            stack.push(l);
        }
    }
    ents.sort_by(|a, b| a.key.cmp(&b.key));
    Truth { ents, nodes, free: s.free.clone(), count: s.count, reachable, n_reachable, walk_errors, shape_hash }
}

/// longest entry covering q
pub fn lpm(ents: &[Ent], q: Key) -> Option<&Ent> {
    ents.iter().filter(|e| e.key.covers(q)).max_by_key(|e| e.key.len)
}
/// shortest entry covering q
pub fn spm(ents: &[Ent], q: Key) -> Option<&Ent> {
    ents.iter().filter(|e| e.key.covers(q)).min_by_key(|e| e.key.len)
}
/// all entries covering q, by increasing length
pub fn cover(ents: &[Ent], q: Key) -> Vec<&Ent> {
    let mut v: Vec<&Ent> = ents.iter().filter(|e| e.key.covers(q)).collect();
    v.sort_by_key(|e| e.key.len);
    v
}
/// all entries covered by q, in lexicographic order (ents is sorted)
pub fn under(ents: &[Ent], q: Key) -> Vec<&Ent> {
    ents.iter().filter(|e| q.covers(e.key)).collect()
}
pub fn under_owned(ents: &[Ent], q: Key) -> Vec<Ent> {
    ents.iter().filter(|e| q.covers(e.key)).cloned().collect()
}
pub fn find_key(ents: &[Ent], q: Key) -> Option<&Ent> {
    ents.iter().find(|e| e.key == q)
}

/// One node of an observable shape: key, whether it carries a value, keys of the children.
#[derive(Clone, Debug, PartialEq, Eq, PartialOrd, Ord, Hash)]
pub struct ShapeNode {
    pub key: Key,
    pub has_value: bool,
    pub left: Option<Key>,
    pub right: Option<Key>,
}

/// The canonical (PATRICIA) shape of a key set: root + keys + branching points.
pub fn canonical_shape(keys: &[Key]) -> Vec<ShapeNode> {
    let mut set: BTreeSet<Key> = keys.iter().copied().collect();
    let sorted: Vec<Key> = set.iter().copied().collect();
    for w in sorted.windows(2) {
        set.insert(w[0].lcp(w[1]));
    }
    set.insert(Key::ZERO);
    let valued: BTreeSet<Key> = keys.iter().copied().collect();
    let nodes: Vec<Key> = set.iter().copied().collect();
    let mut out: Vec<ShapeNode> =
        nodes.iter().map(|k| ShapeNode { key: *k, has_value: valued.contains(k), left: None, right: None }).collect();
    for (i, k) in nodes.iter().enumerate() {
        if k.len == 0 {
            continue;
        }
        // parent = longest other node strictly covering k
        let mut best: Option<usize> = None;
        for (j, p) in nodes.iter().enumerate() {
            if j != i && p.len < k.len && p.covers(*k) && best.map(|b| nodes[b].len < p.len).unwrap_or(true) {
                best = Some(j);
            }
        }
        let b = best.expect("root covers everything");
        let right = Key::addr_bit(k.bits, nodes[b].len);
        if right {
            out[b].right = Some(*k);
        } else {
            out[b].left = Some(*k);
        }
    }
    out
}

#[cfg(test)]
mod test {
    use super::*;
    fn k(bits: u8, len: u8) -> Key {
        Raw::new((bits as u128) << 120, len).key()
    }
    #[test]
    fn shape() {
        let s = canonical_shape(&[k(0b0000_0000, 3), k(0b0010_0000, 3)]);
        // root, 00/2 (branch), 000/3, 001/3
        assert_eq!(s.len(), 4);
        assert_eq!(s[0].key, Key::ZERO);
        assert_eq!(s[0].left, Some(k(0, 2)));
        assert!(!s[1].has_value);
        assert_eq!(s[1].left, Some(k(0, 3)));
        assert_eq!(s[1].right, Some(k(0b0010_0000, 3)));
        let s = canonical_shape(&[k(0, 2), k(0b1000_0000, 2)]);
        assert_eq!(s.len(), 3);
        assert_eq!(s[0].right, Some(k(0b1000_0000, 2)));
    }
}
