//! Invariant packs evaluated after every step: observers of the reached state, compared with the
//! ground truth read from the arena (H1) or with the reference model (history properties).

use crate::chk;
use crate::ctx::{Ctx, R};
use crate::exec::{MapW, SetW};
use crate::script::Cfg;
use crate::key::{mask, Key, Raw};
use crate::ptypes::SimPrefix;
use crate::rng::mix64;
use crate::truth::{cover, find_key, lpm, spm, under, Ent, Truth};
use crate::val::Val;
use prefix_trie::{PrefixMap, PrefixSet};

fn left_align(width: u8, x: u128) -> u128 {
    if width >= 128 {
        x
    } else {
        (x & ((1u128 << width) - 1)) << (128 - width as u32)
    }
}

/// decorate a key with deterministic host-bit noise
pub fn noisy<P: SimPrefix>(k: Key, salt: u64) -> Raw {
    if !P::KEEPS_HOST || k.len >= P::WIDTH {
        return k.raw();
    }
    let h = mix64(salt ^ (k.bits as u64) ^ ((k.bits >> 64) as u64).rotate_left(7) ^ ((k.len as u64) << 48));
    let noise = left_align(P::WIDTH, ((mix64(h) as u128) << 64) | h as u128) & !mask(k.len);
    Raw { addr: k.bits | noise, len: k.len }
}

/// Query prefixes for the per-step invariants.
pub fn probes<P: SimPrefix>(cfg: &Cfg, ents: &[Ent]) -> Vec<Key> {
    let mut out: Vec<Key> = vec![];
    if cfg.full_u8 {
        return cfg.universe.iter().map(|r| r.key()).collect();
    }
    let wd = P::WIDTH;
    let mut push = |k: Key| {
        if k.len <= wd && !out.contains(&k) && out.len() < 160 {
            out.push(k);
        }
    };
    push(Key::ZERO);
    for e in ents {
        push(e.key);
        if let Some(p) = e.key.parent() {
            push(p);
            push(p.child(!Key::addr_bit(e.key.bits, p.len)));
        }
        if e.key.len < wd {
            push(e.key.child(false));
            push(e.key.child(true));
        }
    }
    for x in ents.windows(2) {
        push(x[0].key.lcp(x[1].key));
    }
    for e in ents.iter().take(3) {
        let mut k = e.key;
        while k.len < wd {
            k = k.child((k.len as u64 ^ e.v) & 1 == 1);
        }
        push(k);
    }
    for r in &cfg.universe {
        push(r.key());
    }
    out
}

fn ent_eq(got: Option<(Raw, u64)>, exp: Option<&Ent>) -> bool {
    match (got, exp) {
        (None, None) => true,
        (Some((r, v)), Some(e)) => r.key() == e.key && v == e.v,
        _ => false,
    }
}
fn key_eq(got: Option<Raw>, exp: Option<&Ent>) -> bool {
    match (got, exp) {
        (None, None) => true,
        (Some(r), Some(e)) => r.key() == e.key,
        _ => false,
    }
}

// ------------------------------------------------------------------------------------------- C01

pub fn pack_c01_map<P: SimPrefix>(ctx: &mut Ctx, cfg: &Cfg, mw: &mut MapW<P>, t: &Truth) -> R {
    // the stored entries are exactly the abstract map's
    let model: Vec<(Key, u64)> = mw.model.iter().map(|(k, x)| (*k, x.1)).collect();
    let real: Vec<(Key, u64)> = t.ents.iter().map(|e| (e.key, e.v)).collect();
    chk!(ctx, "C01", model == real, "contents", "stored entries {:?} differ from the abstract map {:?}", real, model);
    let salt = ctx.salt ^ ctx.step as u64;
    for q in probes::<P>(cfg, &t.ents) {
        let p = P::make(noisy::<P>(q, salt));
        let exp = mw.model.get(&q).map(|x| x.1);
        let g = ctx.obs("C01", "get", || mw.real.get(&p).map(|v| v.payload))?;
        chk!(ctx, "C01", g == exp, "obs:get", "get({q}) = {:?}, abstract map {:?}", g, exp);
        let g = ctx.obs("C01", "get_key_value", || mw.real.get_key_value(&p).map(|(pp, v)| (pp.raw(), v.payload)))?;
        chk!(ctx, "C01", g.map(|x| (x.0.key(), x.1)) == exp.map(|v| (q, v)), "obs:get_key_value", "get_key_value({q}) = {:?}, abstract map {:?}", g, exp);
        let g = ctx.obs("C01", "contains_key", || mw.real.contains_key(&p))?;
        chk!(ctx, "C01", g == exp.is_some(), "obs:contains_key", "contains_key({q}) = {g}, abstract map {:?}", exp);
        let g = ctx.obs("C01", "get_mut", || mw.real.get_mut(&p).map(|v| v.payload))?;
        chk!(ctx, "C01", g == exp, "obs:get_mut", "get_mut({q}) = {:?}, abstract map {:?}", g, exp);
    }
    Ok(())
}

pub fn pack_c01_set<P: SimPrefix>(ctx: &mut Ctx, cfg: &Cfg, sw: &SetW<P>, t: &Truth) -> R {
    let model: Vec<Key> = sw.model.keys().copied().collect();
    let real: Vec<Key> = t.ents.iter().map(|e| e.key).collect();
    chk!(ctx, "C01", model == real, "set.contents", "stored set members {:?} differ from the abstract set {:?}", real, model);
    let salt = ctx.salt ^ ctx.step as u64;
    for q in probes::<P>(cfg, &t.ents) {
        let p = P::make(noisy::<P>(q, salt));
        let exp = sw.model.contains_key(&q);
        let g = ctx.obs("C01", "set.contains", || sw.real.contains(&p))?;
        chk!(ctx, "C01", g == exp, "obs:set.contains", "set.contains({q}) = {g}, abstract set {exp}");
        let g = ctx.obs("C01", "set.get", || sw.real.get(&p).map(|pp| pp.raw()))?;
        chk!(ctx, "C01", g.map(|r| r.key()) == exp.then_some(q), "obs:set.get", "set.get({q}) = {:?}, abstract set {exp}", g);
    }
    Ok(())
}

// ------------------------------------------------------------------------------------------- C02

pub fn pack_c02_map<P: SimPrefix>(ctx: &mut Ctx, cfg: &Cfg, real: &mut PrefixMap<P, Val>, t: &Truth) -> R {
    let salt = ctx.salt ^ ctx.step as u64;
    for q in probes::<P>(cfg, &t.ents) {
        let p = P::make(noisy::<P>(q, salt));
        let exp = lpm(&t.ents, q);
        if let Some(e) = exp {
            // value-less node strictly between the match and the query?
            if t.nodes.iter().enumerate().any(|(i, n)| t.reachable[i] && !n.has_value && n.raw.key().len > e.key.len && n.raw.key().covers(q)) {
                ctx.rare("probe.lpm across value-less node");
            }
        }
        if q.len == P::WIDTH {
            ctx.hit("probe.full-width query");
        }
        let g = ctx.obs("C02", "get_lpm", || real.get_lpm(&p).map(|(pp, v)| (pp.raw(), v.payload)))?;
        chk!(ctx, "C02", ent_eq(g, exp), "get_lpm", "get_lpm({q}) = {:?}, expected {:?}; stored {:?}", g, exp, t.ents);
        let g = ctx.obs("C02", "get_lpm_prefix", || real.get_lpm_prefix(&p).map(|pp| pp.raw()))?;
        chk!(ctx, "C02", key_eq(g, exp), "get_lpm_prefix", "get_lpm_prefix({q}) = {:?}, expected {:?}; stored {:?}", g, exp, t.ents);
        let g = ctx.obs("C02", "get_lpm_mut", || real.get_lpm_mut(&p).map(|(pp, v)| (pp.raw(), v.payload)))?;
        chk!(ctx, "C02", ent_eq(g, exp), "get_lpm_mut", "get_lpm_mut({q}) = {:?}, expected {:?}; stored {:?}", g, exp, t.ents);
    }
    Ok(())
}
pub fn pack_c02_set<P: SimPrefix>(ctx: &mut Ctx, cfg: &Cfg, real: &PrefixSet<P>, t: &Truth) -> R {
    let salt = ctx.salt ^ ctx.step as u64;
    for q in probes::<P>(cfg, &t.ents) {
        let p = P::make(noisy::<P>(q, salt));
        let exp = lpm(&t.ents, q);
        let g = ctx.obs("C02", "set.get_lpm", || real.get_lpm(&p).map(|pp| pp.raw()))?;
        chk!(ctx, "C02", key_eq(g, exp), "set.get_lpm", "set.get_lpm({q}) = {:?}, expected {:?}; stored {:?}", g, exp, t.ents);
    }
    Ok(())
}

// ------------------------------------------------------------------------------------------- C03

/// drive an iterator to exhaustion and 3 calls beyond; item cap protects against endless iterators
pub fn drain<I: Iterator>(it: &mut I, cap: usize) -> (Vec<I::Item>, bool, bool) {
    let mut v = vec![];
    let mut capped = false;
    loop {
        match it.next() {
            Some(x) => {
                v.push(x);
                if v.len() > cap {
                    capped = true;
                    break;
                }
            }
            None => break,
        }
    }
    let fused = capped || (it.next().is_none() && it.next().is_none() && it.next().is_none());
    (v, fused, capped)
}


/// Iterator methods other than `next()`: a client may finish a (partially advanced) traversal by
/// internal iteration - `count`, `last`, `fold`/`for_each`, `nth`, `skip` - and every one of them
/// must describe the same remaining sequence. `mk` makes a fresh iterator, which is advanced by
/// `j` calls of `next()` first.
pub fn consumer_checks<I, T>(mut mk: impl FnMut() -> I, conv: impl Fn(I::Item) -> T + Copy, exp: &[T], j: usize, k: usize) -> Result<(), (&'static str, String)>
where
    I: Iterator,
    T: PartialEq + std::fmt::Debug + Clone,
{
    let j = j.min(exp.len());
    let rest = &exp[j..];
    let k = if rest.is_empty() { 0 } else { k % (rest.len() + 1) };
    let adv = |it: &mut I| {
        for _ in 0..j {
            it.next();
        }
    };
    let mut it = mk();
    adv(&mut it);
    let (lo, hi) = it.size_hint();
    if lo > rest.len() || hi.map(|h| h < rest.len()).unwrap_or(false) {
        return Err(("size_hint", format!("after {j} next(): size_hint() = ({lo}, {:?}) but {} items remain", hi, rest.len())));
    }
    let c = it.count();
    if c != rest.len() {
        return Err(("count", format!("after {j} next(): count() = {c} but {} items remain ({:?})", rest.len(), rest)));
    }
    let mut it = mk();
    adv(&mut it);
    let l = it.last().map(conv);
    if l != rest.last().cloned() {
        return Err(("last", format!("after {j} next(): last() = {:?}, expected {:?}", l, rest.last())));
    }
    let mut it = mk();
    adv(&mut it);
    let v = it.fold(Vec::new(), |mut v, x| {
        v.push(conv(x));
        v
    });
    if v != rest {
        return Err(("fold", format!("after {j} next(): fold()/for_each() visits {:?}, expected {:?}", v, rest)));
    }
    let mut it = mk();
    adv(&mut it);
    let n = it.nth(k).map(conv);
    let tail: Vec<T> = it.map(conv).collect();
    let exp_tail: &[T] = if k < rest.len() { &rest[k + 1..] } else { &[] };
    if n != rest.get(k).cloned() || tail != exp_tail {
        return Err(("nth", format!("after {j} next(): nth({k}) = {:?} then {:?}, expected {:?} then {:?}", n, tail, rest.get(k), exp_tail)));
    }
    let mut it = mk();
    adv(&mut it);
    let v: Vec<T> = it.skip(k).map(conv).collect();
    if v != rest[k.min(rest.len())..] {
        return Err(("skip", format!("after {j} next(): skip({k}) yields {:?}, expected {:?}", v, &rest[k.min(rest.len())..])));
    }
    Ok(())
}

/// `clone_from` into an iterator that is itself in the middle of (another) traversal
pub fn clone_from_check<I, T>(mut mk: impl FnMut() -> I, conv: impl Fn(I::Item) -> T + Copy, exp: &[T], j: usize, d: usize, cap: usize) -> Result<(), (&'static str, String)>
where
    I: Iterator + Clone,
    T: PartialEq + std::fmt::Debug + Clone,
{
    let j = j.min(exp.len());
    let mut src = mk();
    for _ in 0..j {
        src.next();
    }
    let mut dst = mk();
    for _ in 0..d {
        dst.next();
    }
    dst.clone_from(&src);
    let a: Vec<T> = dst.take(cap).map(conv).collect();
    let b: Vec<T> = src.take(cap).map(conv).collect();
    if a != exp[j..] || b != exp[j..] {
        return Err(("clone_from", format!("clone_from of an iterator advanced by {j} into one advanced by {d}: copy yields {:?}, source yields {:?}, expected {:?}", a, b, &exp[j..])));
    }
    Ok(())
}

macro_rules! consumers {
    ($ctx:expr, $p:expr, $name:expr, $res:expr) => {
        if let Err((m, d)) = $res {
            chk!($ctx, $p, false, format!("consumer:{}:{}", $name, m), "{}: {}", $name, d);
        }
    };
}

macro_rules! seq_check {
    ($ctx:expr, $p:expr, $name:expr, $got:expr, $exp:expr, $fused:expr, $capped:expr) => {
        chk!($ctx, $p, !$capped, format!("diverge:{}", $name), "{} yielded more than {} items", $name, $exp.len());
        chk!($ctx, $p, $got == $exp, format!("seq:{}", $name), "{} yielded {:?}, expected {:?}", $name, $got, $exp);
        chk!($ctx, $p, $fused, format!("fused:{}", $name), "{} yielded an item after returning None", $name);
    };
}

pub fn pack_c03_map<P: SimPrefix>(ctx: &mut Ctx, real: &mut PrefixMap<P, Val>, t: &Truth, history: &[(Key, u64)]) -> R {
    let exp: Vec<(Raw, u64)> = t.ents.iter().map(|e| (e.raw, e.v)).collect();
    // second opinion: what the iterator yields is also what the history says is stored (a value
    // lingering in a recycled slot is "something else" than a stored entry)
    if ctx.is("C03") {
        let got = ctx.obs("C03", "iter", || real.iter().take(2 * t.nodes.len() + 8).map(|(p, v)| (p.raw().key(), v.payload)).collect::<Vec<_>>())?;
        chk!(ctx, "C03", got == history, "seq:iter:vs-history-model", "iter yielded {:?}, but the entries stored according to the call history are {:?}", got, history);
    }
    let expk: Vec<Raw> = t.ents.iter().map(|e| e.raw).collect();
    let expv: Vec<u64> = t.ents.iter().map(|e| e.v).collect();
    let cap = 2 * t.nodes.len() + 8;
    if t.ents.first().map(|e| e.key.len == 0).unwrap_or(false) {
        ctx.hit("probe.zero-length key stored");
    }
    if t.n_reachable > t.ents.len() + 1 {
        ctx.rare("probe.iteration over value-less nodes");
    }
    let split = if exp.is_empty() { 0 } else { (mix64(ctx.salt ^ ctx.step as u64) % (exp.len() as u64 + 1)) as usize };

    let (g, f, c) = ctx.obs("C03", "iter", || {
        let mut it = real.iter();
        let (v, f, c) = drain(&mut it, cap);
        (v.into_iter().map(|(p, v)| (p.raw(), v.payload)).collect::<Vec<_>>(), f, c)
    })?;
    seq_check!(ctx, "C03", "iter", g, exp, f, c);
    let (g, f, c) = ctx.obs("C03", "&map", || {
        let mut it = (&*real).into_iter();
        let (v, f, c) = drain(&mut it, cap);
        (v.into_iter().map(|(p, v)| (p.raw(), v.payload)).collect::<Vec<_>>(), f, c)
    })?;
    seq_check!(ctx, "C03", "&map.into_iter", g, exp, f, c);
    let (g, f, c) = ctx.obs("C03", "keys", || {
        let mut it = real.keys();
        let (v, f, c) = drain(&mut it, cap);
        (v.into_iter().map(|p| p.raw()).collect::<Vec<_>>(), f, c)
    })?;
    seq_check!(ctx, "C03", "keys", g, expk, f, c);
    let (g, f, c) = ctx.obs("C03", "values", || {
        let mut it = real.values();
        let (v, f, c) = drain(&mut it, cap);
        (v.into_iter().map(|v| v.payload).collect::<Vec<_>>(), f, c)
    })?;
    seq_check!(ctx, "C03", "values", g, expv, f, c);
    let (g, f, c) = ctx.obs("C03", "iter_mut", || {
        let mut it = real.iter_mut();
        let (v, f, c) = drain(&mut it, cap);
        (v.into_iter().map(|(p, v)| (p.raw(), v.payload)).collect::<Vec<_>>(), f, c)
    })?;
    seq_check!(ctx, "C03", "iter_mut", g, exp, f, c);
    let (g, f, c) = ctx.obs("C03", "values_mut", || {
        let mut it = real.values_mut();
        let (v, f, c) = drain(&mut it, cap);
        (v.into_iter().map(|v| v.payload).collect::<Vec<_>>(), f, c)
    })?;
    seq_check!(ctx, "C03", "values_mut", g, expv, f, c);
    // clones taken mid-way: clone and original both yield the remainder
    let (a, b, f) = ctx.obs("C03", "iter.clone", || {
        let mut it = real.iter();
        for _ in 0..split {
            it.next();
        }
        let mut cl = it.clone();
        let (a, f1, _) = drain(&mut it, cap);
        let (b, f2, _) = drain(&mut cl, cap);
        (a.into_iter().map(|(p, v)| (p.raw(), v.payload)).collect::<Vec<_>>(), b.into_iter().map(|(p, v)| (p.raw(), v.payload)).collect::<Vec<_>>(), f1 && f2)
    })?;
    ctx.stats.hit("fault.clone@j fired");
    ctx.stats.add("fault.overrun fired", 9);
    let rest: Vec<(Raw, u64)> = exp[split.min(exp.len())..].to_vec();
    seq_check!(ctx, "C03", "iter.clone(original)", a, rest, f, false);
    seq_check!(ctx, "C03", "iter.clone(clone)", b, rest, f, false);
    let (a, b) = ctx.obs("C03", "keys.clone", || {
        let mut it = real.keys();
        for _ in 0..split {
            it.next();
        }
        let mut cl = it.clone();
        (drain(&mut it, cap).0.into_iter().map(|p| p.raw()).collect::<Vec<_>>(), drain(&mut cl, cap).0.into_iter().map(|p| p.raw()).collect::<Vec<_>>())
    })?;
    let restk: Vec<Raw> = expk[split.min(expk.len())..].to_vec();
    seq_check!(ctx, "C03", "keys.clone(original)", a, restk, true, false);
    seq_check!(ctx, "C03", "keys.clone(clone)", b, restk, true, false);
    let (a, b) = ctx.obs("C03", "values.clone", || {
        let mut it = real.values();
        for _ in 0..split {
            it.next();
        }
        let mut cl = it.clone();
        (drain(&mut it, cap).0.into_iter().map(|v| v.payload).collect::<Vec<_>>(), drain(&mut cl, cap).0.into_iter().map(|v| v.payload).collect::<Vec<_>>())
    })?;
    let restv: Vec<u64> = expv[split.min(expv.len())..].to_vec();
    seq_check!(ctx, "C03", "values.clone(original)", a, restv, true, false);
    seq_check!(ctx, "C03", "values.clone(clone)", b, restv, true, false);
    // every iterator method, not only next(): count/last/fold/nth/skip after `split` next() calls,
    // and clone_from into an iterator that is in the middle of a traversal
    if ctx.is("C03") {
        let kk = (mix64(ctx.salt ^ 0x77 ^ ctx.step as u64) % 5) as usize;
        let dd = (mix64(ctx.salt ^ 0x99 ^ ctx.step as u64) % 3) as usize;
        let r = ctx.obs("C03", "iter(consumers)", || consumer_checks(|| real.iter(), |(p, v)| (p.raw(), v.payload), &exp, split, kk))?;
        consumers!(ctx, "C03", "iter", r);
        let r = ctx.obs("C03", "keys(consumers)", || consumer_checks(|| real.keys(), |p| p.raw(), &expk, split, kk))?;
        consumers!(ctx, "C03", "keys", r);
        let r = ctx.obs("C03", "values(consumers)", || consumer_checks(|| real.values(), |v| v.payload, &expv, split, kk))?;
        consumers!(ctx, "C03", "values", r);
        let r = ctx.obs("C03", "&map(consumers)", || consumer_checks(|| (&*real).into_iter(), |(p, v)| (p.raw(), v.payload), &exp, split, kk))?;
        consumers!(ctx, "C03", "&map.into_iter", r);
        let r = ctx.obs("C03", "iter.clone_from", || clone_from_check(|| real.iter(), |(p, v)| (p.raw(), v.payload), &exp, split, dd, cap))?;
        consumers!(ctx, "C03", "iter", r);
        let r = ctx.obs("C03", "keys.clone_from", || clone_from_check(|| real.keys(), |p| p.raw(), &expk, split, dd, cap))?;
        consumers!(ctx, "C03", "keys", r);
        let r = ctx.obs("C03", "values.clone_from", || clone_from_check(|| real.values(), |v| v.payload, &expv, split, dd, cap))?;
        consumers!(ctx, "C03", "values", r);
        let r = ctx.obs("C03", "iter_mut(consumers)", || {
            let mut count_ok = Ok(());
            for variant in 0..2 {
                let mut it = real.iter_mut();
                for _ in 0..split.min(exp.len()) {
                    it.next();
                }
                let rest = &exp[split.min(exp.len())..];
                if variant == 0 {
                    let c = it.count();
                    if c != rest.len() {
                        count_ok = Err(("count", format!("iter_mut after {split} next(): count() = {c}, {} remain", rest.len())));
                    }
                } else {
                    let v = it.fold(Vec::new(), |mut v, (p, x)| {
                        v.push((p.raw(), x.payload));
                        v
                    });
                    if v != rest {
                        count_ok = Err(("fold", format!("iter_mut after {split} next(): fold() visits {:?}, expected {:?}", v, rest)));
                    }
                }
            }
            count_ok
        })?;
        consumers!(ctx, "C03", "iter_mut", r);
        if ctx.step % 3 == 1 {
            let r = ctx.obs("C03", "into_iter(consumers)", || consumer_checks(|| real.clone().into_iter(), |(p, v)| (p.raw(), v.payload), &exp, split, kk))?;
            consumers!(ctx, "C03", "into_iter", r);
            let r = ctx.obs("C03", "into_keys(consumers)", || consumer_checks(|| real.clone().into_keys(), |p| p.raw(), &expk, split, kk))?;
            consumers!(ctx, "C03", "into_keys", r);
            let r = ctx.obs("C03", "into_values(consumers)", || consumer_checks(|| real.clone().into_values(), |v| v.payload, &expv, split, kk))?;
            consumers!(ctx, "C03", "into_values", r);
            let r = ctx.obs("C03", "into_iter.clone_from", || clone_from_check(|| real.clone().into_iter(), |(p, v)| (p.raw(), v.payload), &exp, split, dd, cap))?;
            consumers!(ctx, "C03", "into_iter", r);
        }
    }
    // consuming forms, on a clone of the map (every 3rd step: clones are comparatively costly)
    if ctx.step % 3 == 0 {
        let (g, f, c, g2) = ctx.obs("C03", "into_iter", || {
            let mut it = real.clone().into_iter();
            for _ in 0..split {
                it.next();
            }
            let mut cl = it.clone();
            let (v, f, c) = drain(&mut it, cap);
            let (v2, _, _) = drain(&mut cl, cap);
            (v.iter().map(|(p, v)| (p.raw(), v.payload)).collect::<Vec<_>>(), f, c, v2.iter().map(|(p, v)| (p.raw(), v.payload)).collect::<Vec<_>>())
        })?;
        seq_check!(ctx, "C03", "into_iter(after clone@j)", g, rest, f, c);
        seq_check!(ctx, "C03", "into_iter.clone", g2, rest, true, false);
        let (g, f, c) = ctx.obs("C03", "into_keys", || {
            let mut it = real.clone().into_keys();
            let (v, f, c) = drain(&mut it, cap);
            (v.iter().map(|p| p.raw()).collect::<Vec<_>>(), f, c)
        })?;
        seq_check!(ctx, "C03", "into_keys", g, expk, f, c);
        let (g, f, c) = ctx.obs("C03", "into_values", || {
            let mut it = real.clone().into_values();
            let (v, f, c) = drain(&mut it, cap);
            (v.iter().map(|v| v.payload).collect::<Vec<_>>(), f, c)
        })?;
        seq_check!(ctx, "C03", "into_values", g, expv, f, c);
    }
    Ok(())
}

pub fn pack_c03_set<P: SimPrefix>(ctx: &mut Ctx, real: &PrefixSet<P>, t: &Truth, history: &[Key]) -> R {
    let expk: Vec<Raw> = t.ents.iter().map(|e| e.raw).collect();
    if ctx.is("C03") {
        let got = ctx.obs("C03", "set.iter", || real.iter().take(2 * t.nodes.len() + 8).map(|p| p.raw().key()).collect::<Vec<_>>())?;
        chk!(ctx, "C03", got == history, "seq:set.iter:vs-history-model", "set.iter yielded {:?}, but the members stored according to the call history are {:?}", got, history);
    }
    let cap = 2 * t.nodes.len() + 8;
    let split = if expk.is_empty() { 0 } else { (mix64(ctx.salt ^ ctx.step as u64) % (expk.len() as u64 + 1)) as usize };
    let (g, f, c) = ctx.obs("C03", "set.iter", || {
        let mut it = real.iter();
        let (v, f, c) = drain(&mut it, cap);
        (v.into_iter().map(|p| p.raw()).collect::<Vec<_>>(), f, c)
    })?;
    seq_check!(ctx, "C03", "set.iter", g, expk, f, c);
    let (g, f, c) = ctx.obs("C03", "&set", || {
        let mut it = real.into_iter();
        let (v, f, c) = drain(&mut it, cap);
        (v.into_iter().map(|p| p.raw()).collect::<Vec<_>>(), f, c)
    })?;
    seq_check!(ctx, "C03", "&set.into_iter", g, expk, f, c);
    let (a, b) = ctx.obs("C03", "set.iter.clone", || {
        let mut it = real.iter();
        for _ in 0..split {
            it.next();
        }
        let mut cl = it.clone();
        (drain(&mut it, cap).0.into_iter().map(|p| p.raw()).collect::<Vec<_>>(), drain(&mut cl, cap).0.into_iter().map(|p| p.raw()).collect::<Vec<_>>())
    })?;
    let restk: Vec<Raw> = expk[split.min(expk.len())..].to_vec();
    seq_check!(ctx, "C03", "set.iter.clone(original)", a, restk, true, false);
    seq_check!(ctx, "C03", "set.iter.clone(clone)", b, restk, true, false);
    if ctx.is("C03") {
        let kk = (mix64(ctx.salt ^ 0x77 ^ ctx.step as u64) % 5) as usize;
        let dd = (mix64(ctx.salt ^ 0x99 ^ ctx.step as u64) % 3) as usize;
        let r = ctx.obs("C03", "set.iter(consumers)", || consumer_checks(|| real.iter(), |p| p.raw(), &expk, split, kk))?;
        consumers!(ctx, "C03", "set.iter", r);
        let r = ctx.obs("C03", "set.iter.clone_from", || clone_from_check(|| real.iter(), |p| p.raw(), &expk, split, dd, cap))?;
        consumers!(ctx, "C03", "set.iter", r);
        if ctx.step % 3 == 1 {
            let r = ctx.obs("C03", "set.into_iter(consumers)", || consumer_checks(|| real.clone().into_iter(), |p| p.raw(), &expk, split, kk))?;
            consumers!(ctx, "C03", "set.into_iter", r);
        }
    }
    if ctx.step % 3 == 0 {
        let (g, f, c, g2) = ctx.obs("C03", "set.into_iter", || {
            let mut it = real.clone().into_iter();
            for _ in 0..split {
                it.next();
            }
            let mut cl = it.clone();
            let (v, f, c) = drain(&mut it, cap);
            (v.iter().map(|p| p.raw()).collect::<Vec<_>>(), f, c, drain(&mut cl, cap).0.iter().map(|p| p.raw()).collect::<Vec<_>>())
        })?;
        seq_check!(ctx, "C03", "set.into_iter(after clone@j)", g, restk, f, c);
        seq_check!(ctx, "C03", "set.into_iter.clone", g2, restk, true, false);
    }
    Ok(())
}

// ------------------------------------------------------------------------------------------- C04

pub fn pack_c04<P: SimPrefix>(ctx: &mut Ctx, len: usize, is_empty: bool, t: &Truth, what: &str) -> R {
    let _ = std::marker::PhantomData::<P>;
    chk!(ctx, "C04", len == t.ents.len(), format!("len-drift:{what}"), "{what}: len() = {len} but {} entries are stored ({:?})", t.ents.len(), t.ents);
    chk!(ctx, "C04", is_empty == t.ents.is_empty(), format!("is_empty:{what}"), "{what}: is_empty() = {is_empty} but {} entries are stored", t.ents.len());
    Ok(())
}

// ------------------------------------------------------------------------------------------- C09

pub fn pack_c09_map<P: SimPrefix>(ctx: &mut Ctx, cfg: &Cfg, real: &mut PrefixMap<P, Val>, t: &Truth) -> R {
    let salt = ctx.salt ^ ctx.step as u64;
    let cap = 2 * t.nodes.len() + 8;
    for q in probes::<P>(cfg, &t.ents) {
        let p = P::make(noisy::<P>(q, salt));
        let chain = cover(&t.ents, q);
        let exp: Vec<(Key, u64)> = chain.iter().map(|e| (e.key, e.v)).collect();
        if chain.len() >= 2 {
            ctx.rare("probe.cover chain >=2");
        }
        if chain.first().map(|e| e.key.len == 0).unwrap_or(false) {
            ctx.hit("probe.cover with populated root");
        }
        let (g, f, c) = ctx.obs("C09", "cover", || {
            let mut it = real.cover(&p);
            let (v, f, c) = drain(&mut it, cap);
            (v.into_iter().map(|(pp, v)| (pp.raw().key(), v.payload)).collect::<Vec<_>>(), f, c)
        })?;
        seq_check!(ctx, "C09", format!("cover({q})"), g, exp, f, c);
        let (g, f, c) = ctx.obs("C09", "cover_keys", || {
            let mut it = real.cover_keys(&p);
            let (v, f, c) = drain(&mut it, cap);
            (v.into_iter().map(|pp| pp.raw().key()).collect::<Vec<_>>(), f, c)
        })?;
        let expk: Vec<Key> = exp.iter().map(|x| x.0).collect();
        seq_check!(ctx, "C09", format!("cover_keys({q})"), g, expk, f, c);
        let (g, f, c) = ctx.obs("C09", "cover_values", || {
            let mut it = real.cover_values(&p);
            let (v, f, c) = drain(&mut it, cap);
            (v.into_iter().map(|v| v.payload).collect::<Vec<_>>(), f, c)
        })?;
        let expv: Vec<u64> = exp.iter().map(|x| x.1).collect();
        seq_check!(ctx, "C09", format!("cover_values({q})"), g, expv, f, c);
        if ctx.is("C09") && !exp.is_empty() && (q.bits as u64 ^ q.len as u64 ^ ctx.step as u64) % 4 == 0 {
            let jj = (mix64(salt ^ q.bits as u64 ^ q.len as u64) % (exp.len() as u64 + 1)) as usize;
            let kk = (mix64(salt ^ 0x31 ^ q.len as u64) % 3) as usize;
            let r = ctx.obs("C09", "cover(consumers)", || consumer_checks(|| real.cover(&p), |(pp, v)| (pp.raw().key(), v.payload), &exp, jj, kk))?;
            consumers!(ctx, "C09", "cover", r);
            let r = ctx.obs("C09", "cover_keys(consumers)", || consumer_checks(|| real.cover_keys(&p), |pp| pp.raw().key(), &expk, jj, kk))?;
            consumers!(ctx, "C09", "cover_keys", r);
            let r = ctx.obs("C09", "cover_values(consumers)", || consumer_checks(|| real.cover_values(&p), |v| v.payload, &expv, jj, kk))?;
            consumers!(ctx, "C09", "cover_values", r);
        }
        let first = spm(&t.ents, q);
        let g = ctx.obs("C09", "get_spm", || real.get_spm(&p).map(|(pp, v)| (pp.raw(), v.payload)))?;
        chk!(ctx, "C09", ent_eq(g, first), "get_spm", "get_spm({q}) = {:?}, expected {:?}; stored {:?}", g, first, t.ents);
        let g = ctx.obs("C09", "get_spm_prefix", || real.get_spm_prefix(&p).map(|pp| pp.raw()))?;
        chk!(ctx, "C09", key_eq(g, first), "get_spm_prefix", "get_spm_prefix({q}) = {:?}, expected {:?}; stored {:?}", g, first, t.ents);
        let g = ctx.obs("C09", "get_lpm", || real.get_lpm(&p).map(|(pp, v)| (pp.raw(), v.payload)))?;
        chk!(ctx, "C09", ent_eq(g, chain.last().copied()), "lpm-is-last-of-cover", "get_lpm({q}) = {:?} but the cover chain ends with {:?}", g, chain.last());
        let g = ctx.obs("C09", "get_lpm_prefix", || real.get_lpm_prefix(&p).map(|pp| pp.raw()))?;
        chk!(ctx, "C09", key_eq(g, chain.last().copied()), "lpm-is-last-of-cover:get_lpm_prefix", "get_lpm_prefix({q}) = {:?} but the cover chain ends with {:?}", g, chain.last());
        let g = ctx.obs("C09", "get_lpm_mut", || real.get_lpm_mut(&p).map(|(pp, v)| (pp.raw(), v.payload)))?;
        chk!(ctx, "C09", ent_eq(g, chain.last().copied()), "lpm-is-last-of-cover:get_lpm_mut", "get_lpm_mut({q}) = {:?} but the cover chain ends with {:?}", g, chain.last());
    }
    Ok(())
}
pub fn pack_c09_set<P: SimPrefix>(ctx: &mut Ctx, cfg: &Cfg, real: &PrefixSet<P>, t: &Truth) -> R {
    let salt = ctx.salt ^ ctx.step as u64;
    let cap = 2 * t.nodes.len() + 8;
    for q in probes::<P>(cfg, &t.ents) {
        let p = P::make(noisy::<P>(q, salt));
        let chain = cover(&t.ents, q);
        let expk: Vec<Key> = chain.iter().map(|e| e.key).collect();
        let (g, f, c) = ctx.obs("C09", "set.cover", || {
            let mut it = real.cover(&p);
            let (v, f, c) = drain(&mut it, cap);
            (v.into_iter().map(|pp| pp.raw().key()).collect::<Vec<_>>(), f, c)
        })?;
        seq_check!(ctx, "C09", format!("set.cover({q})"), g, expk, f, c);
        if ctx.is("C09") && !expk.is_empty() && (q.bits as u64 ^ q.len as u64 ^ ctx.step as u64) % 4 == 0 {
            let jj = (mix64(salt ^ q.bits as u64 ^ q.len as u64) % (expk.len() as u64 + 1)) as usize;
            let kk = (mix64(salt ^ 0x31 ^ q.len as u64) % 3) as usize;
            let r = ctx.obs("C09", "set.cover(consumers)", || consumer_checks(|| real.cover(&p), |pp| pp.raw().key(), &expk, jj, kk))?;
            consumers!(ctx, "C09", "set.cover", r);
        }
        let g = ctx.obs("C09", "set.get_spm", || real.get_spm(&p).map(|pp| pp.raw()))?;
        chk!(ctx, "C09", key_eq(g, chain.first().copied()), "set.get_spm", "set.get_spm({q}) = {:?}, expected {:?}", g, chain.first());
        let g = ctx.obs("C09", "set.get_lpm", || real.get_lpm(&p).map(|pp| pp.raw()))?;
        chk!(ctx, "C09", key_eq(g, chain.last().copied()), "lpm-is-last-of-cover:set.get_lpm", "set.get_lpm({q}) = {:?} but the cover chain ends with {:?}", g, chain.last());
    }
    Ok(())
}

// ------------------------------------------------------------------------------------------- C10

pub fn pack_c10_map<P: SimPrefix>(ctx: &mut Ctx, cfg: &Cfg, real: &mut PrefixMap<P, Val>, t: &Truth) -> R {
    let salt = ctx.salt ^ ctx.step as u64;
    let cap = 2 * t.nodes.len() + 8;
    for (n, q) in probes::<P>(cfg, &t.ents).into_iter().enumerate() {
        let p = P::make(noisy::<P>(q, salt));
        let sel = under(&t.ents, q);
        let exp: Vec<(Raw, u64)> = sel.iter().map(|e| (e.raw, e.v)).collect();
        if find_key(&t.ents, q).is_none() && !sel.is_empty() {
            // selector is a branching node or lies on an edge
            ctx.rare("probe.children selector not stored but non-empty");
        }
        let (g, f, c) = ctx.obs("C10", "children", || {
            let mut it = real.children(&p);
            let (v, f, c) = drain(&mut it, cap);
            (v.into_iter().map(|(pp, v)| (pp.raw(), v.payload)).collect::<Vec<_>>(), f, c)
        })?;
        seq_check!(ctx, "C10", format!("children({q})"), g, exp, f, c);
        let (g, f, c) = ctx.obs("C10", "children_mut", || {
            let mut it = real.children_mut(&p);
            let (v, f, c) = drain(&mut it, cap);
            (v.into_iter().map(|(pp, v)| (pp.raw(), v.payload)).collect::<Vec<_>>(), f, c)
        })?;
        seq_check!(ctx, "C10", format!("children_mut({q})"), g, exp, f, c);
        if ctx.is("C10") && exp.len() >= 2 && (n + ctx.step) % 3 == 0 {
            let jj = (mix64(salt ^ q.bits as u64 ^ q.len as u64) % (exp.len() as u64 + 1)) as usize;
            let kk = (mix64(salt ^ 0x31 ^ q.len as u64) % 3) as usize;
            let r = ctx.obs("C10", "children(consumers)", || consumer_checks(|| real.children(&p), |(pp, v)| (pp.raw(), v.payload), &exp, jj, kk))?;
            consumers!(ctx, "C10", "children", r);
            let r = ctx.obs("C10", "children.clone_from", || clone_from_check(|| real.children(&p), |(pp, v)| (pp.raw(), v.payload), &exp, jj, 1, cap))?;
            consumers!(ctx, "C10", "children", r);
        }
        if (n + ctx.step) % 7 == 0 {
            let (g, f, c) = ctx.obs("C10", "into_children", || {
                let mut it = real.clone().into_children(&p);
                let (v, f, c) = drain(&mut it, cap);
                (v.iter().map(|(pp, v)| (pp.raw(), v.payload)).collect::<Vec<_>>(), f, c)
            })?;
            seq_check!(ctx, "C10", format!("into_children({q})"), g, exp, f, c);
        }
    }
    Ok(())
}
pub fn pack_c10_set<P: SimPrefix>(ctx: &mut Ctx, cfg: &Cfg, real: &PrefixSet<P>, t: &Truth) -> R {
    let salt = ctx.salt ^ ctx.step as u64;
    let cap = 2 * t.nodes.len() + 8;
    for q in probes::<P>(cfg, &t.ents) {
        let p = P::make(noisy::<P>(q, salt));
        let exp: Vec<Raw> = under(&t.ents, q).iter().map(|e| e.raw).collect();
        let (g, f, c) = ctx.obs("C10", "set.children", || {
            let mut it = real.children(&p);
            let (v, f, c) = drain(&mut it, cap);
            (v.into_iter().map(|pp| pp.raw()).collect::<Vec<_>>(), f, c)
        })?;
        seq_check!(ctx, "C10", format!("set.children({q})"), g, exp, f, c);
        if ctx.is("C10") && exp.len() >= 2 {
            let jj = (mix64(salt ^ q.bits as u64 ^ q.len as u64) % (exp.len() as u64 + 1)) as usize;
            let r = ctx.obs("C10", "set.children(consumers)", || consumer_checks(|| real.children(&p), |pp| pp.raw(), &exp, jj, 1))?;
            consumers!(ctx, "C10", "set.children", r);
        }
    }
    Ok(())
}

// ------------------------------------------------------------------------------------------- C18

/// every observer that returns a prefix returns the stored representation (model: the raw value
/// passed to the most recent inserting call), never the query's
pub fn pack_c18_map<P: SimPrefix>(ctx: &mut Ctx, cfg: &Cfg, mw: &MapW<P>, t: &Truth) -> R {
    if !P::KEEPS_HOST {
        return Ok(());
    }
    let salt = ctx.salt ^ ctx.step as u64;
    // C18 is about representations of entries that exist; if the entry set itself has diverged
    // from the history model, that is C01's business and the model's representations are moot
    if ctx.is("C18") && !(mw.model.len() == t.ents.len() && t.ents.iter().all(|e| mw.model.contains_key(&e.key))) {
        return Err(crate::ctx::Abort::Foreign("C01:contents (entry set diverged from the history model)".into()));
    }
    // stored representations are the model's
    for e in &t.ents {
        if let Some(x) = mw.model.get(&e.key) {
            if x.0.has_host_bits() {
                ctx.rare("probe.stored representation with host bits");
            }
            chk!(ctx, "C18", x.0 == e.raw, "stored-repr", "entry {} is stored as {} but the most recent inserting call passed {}", e.key, e.raw, x.0);
        }
    }
    let stored = |k: Key| mw.model.get(&k).map(|x| x.0);
    let real = &mw.real;
    for q in probes::<P>(cfg, &t.ents) {
        // two representations of the same network must behave identically
        let (qa, qb) = (noisy::<P>(q, salt), noisy::<P>(q, salt ^ 0x5555));
        let (pa, pb) = (P::make(qa), P::make(qb));
        let ga = ctx.obs("C18", "get_key_value", || real.get_key_value(&pa).map(|(p, v)| (p.raw(), v.payload)))?;
        let gb = ctx.obs("C18", "get_key_value", || real.get_key_value(&pb).map(|(p, v)| (p.raw(), v.payload)))?;
        chk!(ctx, "C18", ga == gb, "host-bits-matter:get_key_value", "get_key_value({qa}) = {:?} but get_key_value({qb}) = {:?}", ga, gb);
        if let Some((r, _)) = ga {
            chk!(ctx, "C18", Some(r) == stored(r.key()), "repr:get_key_value", "get_key_value({qa}) returned prefix {r}, stored representation is {:?}", stored(r.key()));
        }
        let ga = ctx.obs("C18", "get_lpm", || real.get_lpm(&pa).map(|(p, _)| p.raw()))?;
        let gb = ctx.obs("C18", "get_lpm", || real.get_lpm(&pb).map(|(p, _)| p.raw()))?;
        chk!(ctx, "C18", ga == gb, "host-bits-matter:get_lpm", "get_lpm({qa}) = {:?} but get_lpm({qb}) = {:?}", ga, gb);
        if let Some(r) = ga {
            chk!(ctx, "C18", Some(r) == stored(r.key()), "repr:get_lpm", "get_lpm({qa}) returned prefix {r}, stored representation is {:?}", stored(r.key()));
        }
        let g = ctx.obs("C18", "get_lpm_prefix", || real.get_lpm_prefix(&pb).map(|p| p.raw()))?;
        if let Some(r) = g {
            chk!(ctx, "C18", Some(r) == stored(r.key()), "repr:get_lpm_prefix", "get_lpm_prefix({qb}) returned {r}, stored representation is {:?}", stored(r.key()));
        }
        let g = ctx.obs("C18", "get_spm", || real.get_spm(&pb).map(|(p, _)| p.raw()))?;
        if let Some(r) = g {
            chk!(ctx, "C18", Some(r) == stored(r.key()), "repr:get_spm", "get_spm({qb}) returned {r}, stored representation is {:?}", stored(r.key()));
        }
        let ca = ctx.obs("C18", "cover_keys", || real.cover_keys(&pa).map(|p| p.raw()).take(300).collect::<Vec<_>>())?;
        let cb = ctx.obs("C18", "cover_keys", || real.cover_keys(&pb).map(|p| p.raw()).take(300).collect::<Vec<_>>())?;
        chk!(ctx, "C18", ca == cb, "host-bits-matter:cover_keys", "cover_keys({qa}) = {:?} but cover_keys({qb}) = {:?}", ca, cb);
        for r in ca {
            chk!(ctx, "C18", Some(r) == stored(r.key()), "repr:cover_keys", "cover_keys({qa}) yielded {r}, stored representation is {:?}", stored(r.key()));
        }
        let ca = ctx.obs("C18", "children", || real.children(&pa).map(|(p, _)| p.raw()).take(300).collect::<Vec<_>>())?;
        let cb = ctx.obs("C18", "children", || real.children(&pb).map(|(p, _)| p.raw()).take(300).collect::<Vec<_>>())?;
        chk!(ctx, "C18", ca == cb, "host-bits-matter:children", "children({qa}) = {:?} but children({qb}) = {:?}", ca, cb);
        for r in ca {
            chk!(ctx, "C18", Some(r) == stored(r.key()), "repr:children", "children({qa}) yielded {r}, stored representation is {:?}", stored(r.key()));
        }
        let ga = ctx.obs("C18", "contains_key", || (real.contains_key(&pa), real.get(&pa).map(|v| v.payload)))?;
        let gb = ctx.obs("C18", "contains_key", || (real.contains_key(&pb), real.get(&pb).map(|v| v.payload)))?;
        chk!(ctx, "C18", ga == gb, "host-bits-matter:get", "get/contains_key({qa}) = {:?} but ({qb}) = {:?}", ga, gb);
    }
    let it = ctx.obs("C18", "keys", || real.keys().map(|p| p.raw()).take(2 * t.nodes.len() + 8).collect::<Vec<_>>())?;
    for r in it {
        chk!(ctx, "C18", Some(r) == stored(r.key()), "repr:keys", "keys() yielded {r}, stored representation is {:?}", stored(r.key()));
    }
    // never two entries for one network
    let mut ks: Vec<Key> = t.ents.iter().map(|e| e.key).collect();
    ks.dedup();
    chk!(ctx, "C18", ks.len() == t.ents.len(), "duplicate-network", "two entries stored for the same network: {:?}", t.ents);
    Ok(())
}

pub fn pack_c18_set<P: SimPrefix>(ctx: &mut Ctx, cfg: &Cfg, sw: &SetW<P>, t: &Truth) -> R {
    if !P::KEEPS_HOST {
        return Ok(());
    }
    let salt = ctx.salt ^ ctx.step as u64;
    if ctx.is("C18") && !(sw.model.len() == t.ents.len() && t.ents.iter().all(|e| sw.model.contains_key(&e.key))) {
        return Err(crate::ctx::Abort::Foreign("C01:set.contents (member set diverged from the history model)".into()));
    }
    for e in &t.ents {
        if let Some(x) = sw.model.get(&e.key) {
            chk!(ctx, "C18", *x == e.raw, "set.stored-repr", "set member {} is stored as {} but the most recent insert passed {}", e.key, e.raw, x);
        }
    }
    let stored = |k: Key| sw.model.get(&k).copied();
    for q in probes::<P>(cfg, &t.ents) {
        let (qa, qb) = (noisy::<P>(q, salt), noisy::<P>(q, salt ^ 0x5555));
        let (pa, pb) = (P::make(qa), P::make(qb));
        let ga = ctx.obs("C18", "set.get", || (sw.real.get(&pa).map(|p| p.raw()), sw.real.contains(&pa), sw.real.get_lpm(&pa).map(|p| p.raw()), sw.real.get_spm(&pa).map(|p| p.raw())))?;
        let gb = ctx.obs("C18", "set.get", || (sw.real.get(&pb).map(|p| p.raw()), sw.real.contains(&pb), sw.real.get_lpm(&pb).map(|p| p.raw()), sw.real.get_spm(&pb).map(|p| p.raw())))?;
        chk!(ctx, "C18", ga == gb, "host-bits-matter:set", "set get/contains/get_lpm/get_spm({qa}) = {:?} but ({qb}) = {:?}", ga, gb);
        for r in [ga.0, ga.2, ga.3].into_iter().flatten() {
            chk!(ctx, "C18", Some(r) == stored(r.key()), "repr:set", "set lookup({qa}) returned {r}, stored representation is {:?}", stored(r.key()));
        }
    }
    Ok(())
}
