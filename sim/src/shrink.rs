//! Minimisation of a failing script: delta debugging over steps and over the sub-lists of
//! steps, keeping the violation *signature* constant. Every candidate is re-run from scratch.

use crate::known::Finding;
use crate::run::{run_script, Outcome};
use crate::script::*;
use std::sync::Arc;

fn fails_same(s: &Script, sig: &str, known: &Arc<Vec<Finding>>, budget: &mut usize) -> bool {
    if *budget == 0 {
        return false;
    }
    *budget -= 1;
    match run_script(s, known.clone()).outcome {
        Outcome::Violation(v) | Outcome::Known(v) => v.sig == sig,
        _ => false,
    }
}

/// ddmin on a vector-valued part of the script
fn ddmin<T: Clone>(items: &[T], mut test: impl FnMut(&[T]) -> bool) -> Vec<T> {
    let mut cur: Vec<T> = items.to_vec();
    let mut chunk = (cur.len() / 2).max(1);
    while !cur.is_empty() {
        let mut i = 0;
        let mut progressed = false;
        while i < cur.len() {
            let end = (i + chunk).min(cur.len());
            let mut cand = cur[..i].to_vec();
            cand.extend_from_slice(&cur[end..]);
            if test(&cand) {
                cur = cand;
                progressed = true;
            } else {
                i = end;
            }
        }
        if chunk == 1 && !progressed {
            break;
        }
        if !progressed {
            chunk = (chunk / 2).max(1);
        }
    }
    cur
}

pub fn shrink(script: &Script, sig: &str, fail_step: usize, known: &Arc<Vec<Finding>>) -> (Script, usize) {
    let mut budget = 3000usize;
    let start_budget = budget;
    let mut best = script.clone();
    // 1. cut everything after the failing step
    if fail_step + 1 < best.steps.len() {
        let mut c = best.clone();
        c.steps.truncate(fail_step + 1);
        if fails_same(&c, sig, known, &mut budget) {
            best = c;
        }
    }
    for _round in 0..3 {
        let before = serde_json::to_string(&best).unwrap_or_default().len();
        // 2. drop steps
        let steps = best.steps.clone();
        let base = best.clone();
        let kept = ddmin(&steps, |cand| {
            let mut c = base.clone();
            c.steps = cand.to_vec();
            fails_same(&c, sig, known, &mut budget)
        });
        best.steps = kept;
        // 3. shrink the sub-lists of the remaining steps
        for si in 0..best.steps.len() {
            let st = best.steps[si].clone();
            let base = best.clone();
            let mut try_with = |new: Step, budget: &mut usize| -> bool {
                let mut c = base.clone();
                c.steps[si] = new;
                fails_same(&c, sig, known, budget)
            };
            let new = match &st {
                Step::MutSession { m, acts } => {
                    let a = ddmin(acts, |cand| try_with(Step::MutSession { m: *m, acts: cand.to_vec() }, &mut budget));
                    Step::MutSession { m: *m, acts: a }
                }
                Step::SMutSession { s, acts } => {
                    let a = ddmin(acts, |cand| try_with(Step::SMutSession { s: *s, acts: cand.to_vec() }, &mut budget));
                    Step::SMutSession { s: *s, acts: a }
                }
                Step::ReadSession { handles, sched } => {
                    let sc = ddmin(sched, |cand| try_with(Step::ReadSession { handles: handles.clone(), sched: cand.to_vec() }, &mut budget));
                    let mut try2 = |new: Step, budget: &mut usize| -> bool {
                        let mut c = base.clone();
                        c.steps[si] = new;
                        fails_same(&c, sig, known, budget)
                    };
                    let h = ddmin(handles, |cand| !cand.is_empty() && try2(Step::ReadSession { handles: cand.to_vec(), sched: sc.clone() }, &mut budget));
                    Step::ReadSession { handles: h, sched: sc }
                }
                Step::Entry { m, k, acts, panic_at } => {
                    let mut a = ddmin(acts, |cand| try_with(Step::Entry { m: *m, k: *k, acts: cand.to_vec(), panic_at: *panic_at }, &mut budget));
                    // the arms of a match on the entry
                    for ai in 0..a.len() {
                        if let EAct::Match { occ, vac } = a[ai].clone() {
                            let rebuild = |o: &[OAct], v: &[VAct], a: &Vec<EAct>| {
                                let mut b = a.clone();
                                b[ai] = EAct::Match { occ: o.to_vec(), vac: v.to_vec() };
                                Step::Entry { m: *m, k: *k, acts: b, panic_at: *panic_at }
                            };
                            let o2 = ddmin(&occ, |cand| try_with(rebuild(cand, &vac, &a), &mut budget));
                            let v2 = ddmin(&vac, |cand| try_with(rebuild(&o2, cand, &a), &mut budget));
                            a[ai] = EAct::Match { occ: o2, vac: v2 };
                        }
                    }
                    Step::Entry { m: *m, k: *k, acts: a, panic_at: *panic_at }
                }
                other => other.clone(),
            };
            best.steps[si] = new;
        }
        // 4. simpler world: fewer containers, no host bits (indices are interpreted modulo)
        for f in 0..4 {
            let mut c = best.clone();
            match f {
                0 if c.cfg.n_sets > 0 => c.cfg.n_sets -= 1,
                1 if c.cfg.n_maps > 1 => c.cfg.n_maps -= 1,
                2 if c.cfg.host_bits > 0 => {
                    c.cfg.host_bits = 0;
                    strip_host_bits(&mut c);
                }
                3 if c.cfg.full_u8 => {
                    // keep exhaustive probing only if needed
                    c.cfg.full_u8 = false;
                    c.cfg.universe.truncate(24);
                }
                _ => continue,
            }
            if fails_same(&c, sig, known, &mut budget) {
                best = c;
            }
        }
        let after = serde_json::to_string(&best).unwrap_or_default().len();
        if after >= before || budget == 0 {
            break;
        }
    }
    (best, start_budget - budget)
}

fn strip_host_bits(s: &mut Script) {
    let fix = |r: &mut crate::key::Raw| *r = r.key().raw();
    for st in s.steps.iter_mut() {
        match st {
            Step::Insert { k, .. }
            | Step::Remove { k, .. }
            | Step::RemoveKeepTree { k, .. }
            | Step::RemoveChildren { k, .. }
            | Step::GetMutWrite { k, .. }
            | Step::LpmMutWrite { k, .. }
            | Step::IterMutWrite { k, .. }
            | Step::Entry { k, .. }
            | Step::SInsert { k, .. }
            | Step::SRemove { k, .. }
            | Step::SRemoveKeepTree { k, .. }
            | Step::SRemoveChildren { k, .. } => fix(k),
            _ => {}
        }
    }
}
