//! Execute one script: steps, per-step invariant packs, frame conditions, statistics.

use crate::chk;
use crate::ctx::{classify, Abort, Ctx, Stats, Violation, R};
use crate::exec::World;
use crate::known::Finding;
use crate::packs::*;
use crate::packs2::*;
use crate::ptypes::SimPrefix;
use crate::rng::{mix64, Rng};
use crate::script::{Script, Step};
use crate::val::Val;
use crate::views::*;
use prefix_trie::{AsView, PrefixMap};
use std::sync::Arc;

#[derive(Clone, Debug)]
pub enum Outcome {
    Ok,
    Violation(Violation),
    /// the run stopped because of an event that belongs to another property
    Foreign(String),
    /// the run stopped at a violation listed in KNOWN_FINDINGS.txt
    Known(Violation),
}

#[derive(Clone, Debug)]
pub struct RunResult {
    pub outcome: Outcome,
    pub stats: Stats,
    /// hash over the per-step event log (determinism self-check)
    pub log_hash: u64,
    pub steps_done: usize,
    pub rare: u64,
    /// listed findings that were hit and passed over while the run went on
    pub known_hits: Vec<String>,
}

thread_local! {
    /// lean mode (Miri): execute the steps and their own oracles, skip the per-step packs
    static LEAN: std::cell::Cell<bool> = const { std::cell::Cell::new(false) };
}
pub fn set_lean(on: bool) {
    LEAN.with(|l| l.set(on))
}
fn lean() -> bool {
    LEAN.with(|l| l.get())
}

pub fn run_script(script: &Script, known: Arc<Vec<Finding>>) -> RunResult {
    crate::with_ptype!(script.cfg.ptype, run_typed(script, known))
}

fn wants_any(ctx: &Ctx, ps: &[&str]) -> bool {
    ps.iter().any(|p| ctx.wants(p))
}

fn packs<P: SimPrefix>(ctx: &mut Ctx, w: &mut World<P>) -> R {
    let nm = w.maps.len();
    let cfg = w.cfg.clone();
    for i in 0..nm {
        let t = w.truths[i].clone();
        let canonical = w.maps[i].canonical;
        if ctx.wants("C01") {
            pack_c01_map(ctx, &cfg, &mut w.maps[i], &t)?;
        }
        if ctx.wants("C02") {
            pack_c02_map(ctx, &cfg, &mut w.maps[i].real, &t)?;
        }
        if ctx.wants("C03") {
            let hist: Vec<(crate::key::Key, u64)> = w.maps[i].model.iter().map(|(k, x)| (*k, x.1)).collect();
            pack_c03_map(ctx, &mut w.maps[i].real, &t, &hist)?;
        }
        if ctx.wants("C04") {
            let (l, e) = ctx.obs("C04", "len", || (w.maps[i].real.len(), w.maps[i].real.is_empty()))?;
            pack_c04::<P>(ctx, l, e, &t, "map")?;
        }
        if ctx.wants("C09") {
            pack_c09_map(ctx, &cfg, &mut w.maps[i].real, &t)?;
        }
        if ctx.wants("C10") {
            pack_c10_map(ctx, &cfg, &mut w.maps[i].real, &t)?;
        }
        if ctx.wants("C11") {
            pack_c11(ctx, &cfg, &w.maps[i].real, &t, canonical)?;
            pack_c11_mut(ctx, &cfg, &mut w.maps[i].real, &t, canonical)?;
        }
        if ctx.wants("C12") {
            pack_c12(ctx, &cfg, w.maps[i].real.view(), &t)?;
            pack_c12_mut(ctx, &cfg, &mut w.maps[i].real, &t)?;
        }
        if ctx.wants("C15") {
            let fresh = if canonical && ctx.is("C15") {
                let mut items: Vec<(P, Val)> = t.ents.iter().map(|e| (P::make(e.raw), Val::new(e.v))).collect();
                Rng::new(ctx.salt ^ ctx.step as u64).shuffle(&mut items);
                let f: PrefixMap<P, Val> = ctx.obs("C15", "collect", || items.into_iter().collect())?;
                Some(ctx.obs("C15", "walk", || walk(f.view(), 2 * t.nodes.len() + 8).0)?)
            } else {
                None
            };
            pack_c15(ctx, w.maps[i].real.view(), &t, canonical, fresh)?;
        }
        if ctx.wants("C16") {
            pack_c16(ctx, &t, w.maps[i].hw, canonical, "map")?;
        }
        if ctx.wants("C18") {
            pack_c18_map(ctx, &cfg, &w.maps[i], &t)?;
        }
    }
    for i in 0..w.sets.len() {
        let t = w.truths[nm + i].clone();
        let canonical = w.sets[i].canonical;
        if ctx.wants("C01") {
            pack_c01_set(ctx, &cfg, &w.sets[i], &t)?;
        }
        if ctx.wants("C02") {
            pack_c02_set(ctx, &cfg, &w.sets[i].real, &t)?;
        }
        if ctx.wants("C03") {
            let hist: Vec<crate::key::Key> = w.sets[i].model.keys().copied().collect();
            pack_c03_set(ctx, &w.sets[i].real, &t, &hist)?;
        }
        if ctx.wants("C04") {
            let (l, e) = ctx.obs("C04", "set.len", || (w.sets[i].real.len(), w.sets[i].real.is_empty()))?;
            pack_c04::<P>(ctx, l, e, &t, "set")?;
        }
        if ctx.wants("C09") {
            pack_c09_set(ctx, &cfg, &w.sets[i].real, &t)?;
        }
        if ctx.wants("C10") {
            pack_c10_set(ctx, &cfg, &w.sets[i].real, &t)?;
        }
        if ctx.wants("C11") {
            pack_c11(ctx, &cfg, &w.sets[i].real, &t, canonical)?;
            pack_c11_mut(ctx, &cfg, &mut w.sets[i].real, &t, canonical)?;
        }
        if ctx.wants("C12") {
            pack_c12(ctx, &cfg, w.sets[i].real.view(), &t)?;
        }
        if ctx.wants("C15") {
            pack_c15(ctx, w.sets[i].real.view(), &t, canonical, None)?;
        }
        if ctx.wants("C16") {
            pack_c16(ctx, &t, w.sets[i].hw, canonical, "set")?;
        }
        if ctx.wants("C18") {
            pack_c18_set(ctx, &cfg, &w.sets[i], &t)?;
        }
    }
    if wants_any(ctx, &["C05", "C06", "C07", "C08", "C13", "C14", "C18"]) {
        crate::setops::pack_setops(ctx, w)?;
    }
    if ctx.wants("C19") {
        pack_c19(ctx, w)?;
    }
    pack_c20(ctx, w)?;
    Ok(())
}

fn step_kind(s: &Step) -> &'static str {
    match s {
        Step::Insert { .. } => "step.insert",
        Step::Remove { .. } => "step.remove",
        Step::RemoveKeepTree { .. } => "step.remove_keep_tree",
        Step::RemoveChildren { .. } => "step.remove_children",
        Step::Retain { .. } => "step.retain",
        Step::Clear { .. } => "step.clear",
        Step::GetMutWrite { .. } => "step.get_mut_write",
        Step::LpmMutWrite { .. } => "step.get_lpm_mut_write",
        Step::IterMutWrite { .. } => "step.iter_mut_write",
        Step::Entry { .. } => "step.entry",
        Step::CloneInto { .. } => "step.clone",
        Step::Rebuild { .. } => "step.rebuild",
        Step::Serde { .. } => "step.serde",
        Step::Swap { .. } => "step.swap",
        Step::MutSession { .. } => "step.mut_session",
        Step::ReadSession { .. } => "step.read_session",
        Step::SInsert { .. } => "step.set.insert",
        Step::SRemove { .. } => "step.set.remove",
        Step::SRemoveKeepTree { .. } => "step.set.remove_keep_tree",
        Step::SRemoveChildren { .. } => "step.set.remove_children",
        Step::SRetain { .. } => "step.set.retain",
        Step::SClear { .. } => "step.set.clear",
        Step::SCloneInto { .. } => "step.set.clone",
        Step::SRebuild { .. } => "step.set.rebuild",
        Step::SSerde { .. } => "step.set.serde",
        Step::SMutSession { .. } => "step.set.mut_session",
    }
}

fn run_typed<P: SimPrefix>(script: &Script, known: Arc<Vec<Finding>>) -> RunResult {
    crate::val::reset_registry();
    prefix_trie::verif_hooks::set_fuel(u64::MAX);
    let ticks0 = prefix_trie::verif_hooks::ticks();
    let mut ctx = Ctx {
        prop: script.property.clone(),
        step: 0,
        stats: Stats::default(),
        salt: mix64(script.seed ^ 0x5151),
        fuel: 200_000,
        known_hits: vec![],
        known,
        rare: 0,
        also: vec![],
    };
    let mut log_hash: u64 = mix64(script.seed);
    let mut steps_done = 0;
    let mut w: World<P> = World::new(&script.cfg);
    let outcome = (|| -> R {
        for (si, st) in script.steps.iter().enumerate() {
            ctx.step = si;
            ctx.stats.hit(step_kind(st));
            // fuel: generous multiple of what any single call can legitimately need
            let arena: usize = w.truths.iter().map(|t| t.nodes.len()).sum();
            ctx.fuel = 64 * (arena as u64 + P::WIDTH as u64) * 40 + 20_000;
            let before: Vec<_> = std::mem::take(&mut w.truths);
            w.truths = before.clone();
            let fired0 = crate::val::faults_fired();
            let out = w.exec(&mut ctx, st)?;
            let after = w.all_truths();
            if ctx.is("C20") && crate::val::faults_fired() > fired0 {
                // an injected callback panic unwound through the library during this step: the
                // containers it touched must be well-formed, size-consistent and hold the model
                for c in out.touched.iter().copied().filter(|c| *c < w.maps.len()) {
                    let exp: Vec<crate::truth::Ent> = w.maps[c].model.iter().map(|(k, x)| crate::truth::Ent { key: *k, raw: x.0, v: x.1 }).collect();
                    valid_after_fault(&mut ctx, &w.maps[c].real, &exp, step_kind(st))?;
                    ctx.rare("probe.state validated after an injected panic inside a history");
                }
            }
            // frame condition: a step on one container leaves every other container untouched
            for c in 0..after.len() {
                if !out.touched.contains(&c) {
                    chk!(ctx, "C19", after[c] == before[c], "frame:other-container-changed", "step {:?} changed container #{c}, which it does not operate on: {:?} -> {:?}", st, before[c].ents, after[c].ents);
                }
            }
            // C16: "the next insertions reuse slots released by earlier removals": an inserting step
            // may only grow the arena once the free list is used up
            if matches!(st, Step::Insert { .. } | Step::Entry { .. } | Step::SInsert { .. }) {
                for c in out.touched.iter().copied() {
                    // (one insertion needs at most two nodes: with >= 2 released slots it cannot need
                    // a fresh one; phrased on the state before the step so that implementations that
                    // grow the arena in chunks are not flagged)
                    if after[c].nodes.len() > before[c].nodes.len() {
                        chk!(ctx, "C16", before[c].free.len() < 2, "allocated-while-free-slots", "step {:?} grew the arena from {} to {} slots although {} released slots were on the free list", st, before[c].nodes.len(), after[c].nodes.len(), before[c].free.len());
                    }
                }
            }
            // C15: remove_keep_tree and value-only operations never change the shape
            {
                let value_only = matches!(st, Step::RemoveKeepTree { .. } | Step::SRemoveKeepTree { .. } | Step::GetMutWrite { .. } | Step::LpmMutWrite { .. } | Step::IterMutWrite { .. });
                for c in out.touched.iter().copied() {
                    // an Entry step that created no new key only touched values (or took one out)
                    let entry_no_insert = matches!(st, Step::Entry { .. }) && after[c].ents.iter().all(|e| before[c].ents.iter().any(|b| b.key == e.key));
                    if value_only || entry_no_insert {
                        let shape = |t: &crate::truth::Truth| t.nodes.iter().map(|n| (n.raw.key(), n.left, n.right)).collect::<Vec<_>>();
                        chk!(ctx, "C15", shape(&before[c]) == shape(&after[c]), format!("shape-changed:{}", &step_kind(st)[5..]), "step {:?} must not change the tree shape, but it did: {} nodes reachable before, {} after", st, before[c].n_reachable, after[c].n_reachable);
                        if before[c].n_reachable > before[c].ents.len() + 1 {
                            ctx.rare("probe.shape preserved by a value-only operation on a tree with value-less nodes");
                        }
                    }
                }
            }
            let changed = (0..after.len()).any(|c| after[c].ents != before[c].ents || after[c].shape_hash != before[c].shape_hash);
            if changed {
                ctx.stats.changing_steps += 1;
            }
            for (c, t) in after.iter().enumerate() {
                log_hash = mix64(log_hash ^ t.shape_hash ^ (c as u64) << 60 ^ t.ents.iter().fold(0u64, |h, e| mix64(h ^ e.v ^ e.raw.addr as u64 ^ (e.raw.addr >> 64) as u64)));
                if ctx.stats.states.len() < 100_000 {
                    ctx.stats.states.insert(mix64(t.shape_hash ^ t.ents.len() as u64));
                }
            }
            w.truths = after;
            let nm = w.maps.len();
            for i in 0..nm {
                w.maps[i].hw = w.maps[i].hw.max(w.truths[i].n_reachable);
            }
            for i in 0..w.sets.len() {
                w.sets[i].hw = w.sets[i].hw.max(w.truths[nm + i].n_reachable);
            }
            if !lean() {
                packs(&mut ctx, &mut w)?;
            }
            steps_done = si + 1;
        }
        Ok(())
    })();
    // dropping the world must not panic either
    let dropped = crate::ctx::guarded(10_000_000, move || drop(w));
    let mut outcome = match outcome {
        Ok(()) => match dropped {
            Ok(()) => Outcome::Ok,
            Err(pi) => match classify(&script.property, Abort::Violation(Violation { property: "C20".into(), sig: format!("C20:panic:drop:{}", pi.class()), step: steps_done, detail: format!("dropping the containers panicked: {}", pi.msg) })) {
                Abort::Violation(v) => Outcome::Violation(v),
                Abort::Foreign(s) => Outcome::Foreign(s),
            },
        },
        Err(a) => match classify(&script.property, a) {
            Abort::Violation(v) => Outcome::Violation(v),
            Abort::Foreign(s) => Outcome::Foreign(s),
        },
    };
    if let Outcome::Violation(v) = &outcome {
        if crate::known::matches(&ctx.known, &v.property, &v.sig).is_some() {
            outcome = Outcome::Known(v.clone());
        }
    }
    let regerr = crate::val::take_registry_errors();
    if !regerr.is_empty() {
        ctx.stats.add("conservation.double-drop events", regerr.len() as u64);
    }
    ctx.stats.steps = steps_done as u64;
    ctx.stats.ticks = prefix_trie::verif_hooks::ticks().wrapping_sub(ticks0);
    ctx.stats.add("callbacks invoked", crate::val::callbacks());
    log_hash = mix64(log_hash ^ steps_done as u64 ^ match &outcome {
        Outcome::Ok => 1,
        Outcome::Violation(v) => crate::rng::strhash(&v.sig),
        Outcome::Foreign(s) => crate::rng::strhash(s) ^ 2,
        Outcome::Known(v) => crate::rng::strhash(&v.sig) ^ 3,
    });
    RunResult { outcome, rare: ctx.rare, known_hits: ctx.known_hits, stats: ctx.stats, log_hash, steps_done }
}
