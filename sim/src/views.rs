//! View navigation and the packs about views: C11 (addressing), C12 (search), C15 (shape).

use crate::chk;
use crate::ctx::{Ctx, R};
use crate::script::Cfg;
use crate::key::Key;
use crate::packs::{noisy, probes};
use crate::ptypes::SimPrefix;
use crate::rng::{mix64, Rng};
use crate::script::Nav;
use crate::truth::{canonical_shape, find_key, lpm, under, Ent, ShapeNode, Truth};
use crate::val::SimVal;
use prefix_trie::{AsView, AsViewMut, PrefixMap, PrefixSet, TrieView, TrieViewMut};

/// A container handed to the view packs through its *own* `AsView` / `AsViewMut` implementation
/// (`&PrefixMap`, `&PrefixSet`, `&mut PrefixMap`, `&mut PrefixSet` each have one, and each may
/// override the provided `view_at` / `view_mut_at`).
pub trait ViewSrc<P: SimPrefix, T: SimVal> {
    fn c_view(&self) -> TrieView<'_, P, T>;
    fn c_view_at(&self, p: P) -> Option<TrieView<'_, P, T>>;
    fn c_view_mut(&mut self) -> TrieViewMut<'_, P, T>;
    fn c_view_mut_at(&mut self, p: P) -> Option<TrieViewMut<'_, P, T>>;
}
impl<P: SimPrefix, T: SimVal> ViewSrc<P, T> for PrefixMap<P, T> {
    fn c_view(&self) -> TrieView<'_, P, T> {
        self.view()
    }
    fn c_view_at(&self, p: P) -> Option<TrieView<'_, P, T>> {
        self.view_at(p)
    }
    fn c_view_mut(&mut self) -> TrieViewMut<'_, P, T> {
        self.view_mut()
    }
    fn c_view_mut_at(&mut self, p: P) -> Option<TrieViewMut<'_, P, T>> {
        self.view_mut_at(p)
    }
}
impl<P: SimPrefix> ViewSrc<P, ()> for PrefixSet<P> {
    fn c_view(&self) -> TrieView<'_, P, ()> {
        self.view()
    }
    fn c_view_at(&self, p: P) -> Option<TrieView<'_, P, ()>> {
        self.view_at(p)
    }
    fn c_view_mut(&mut self) -> TrieViewMut<'_, P, ()> {
        self.view_mut()
    }
    fn c_view_mut_at(&mut self, p: P) -> Option<TrieViewMut<'_, P, ()>> {
        self.view_mut_at(p)
    }
}

pub fn view_ents<P: SimPrefix, T: SimVal>(v: &TrieView<'_, P, T>, cap: usize) -> Vec<Ent> {
    v.iter().take(cap).map(|(p, t)| Ent { key: p.raw().key(), raw: p.raw(), v: t.snap() }).collect()
}

/// follow a navigation path; a step that yields no view leaves the current view unchanged
pub fn navigate<'a, P: SimPrefix, T: SimVal>(mut v: TrieView<'a, P, T>, nav: &[Nav]) -> TrieView<'a, P, T> {
    for n in nav {
        let next = match n {
            Nav::At(q) => v.clone().view_at(P::make(*q)),
            Nav::Left => v.left(),
            Nav::Right => v.right(),
            Nav::Find(q) => v.find(P::make(*q)),
            Nav::FindExact(q) => v.find_exact(&P::make(*q)),
            Nav::FindLpm(q) => v.find_lpm(&P::make(*q)),
        };
        if let Some(n) = next {
            v = n;
        }
    }
    v
}
/// region of the key space a view owns after a navigation step: a sub-view narrows it, a virtual
/// view above it (from `find(q)` with q covering the searched view) keeps it
pub fn narrow(region: Key, new_prefix: Key) -> Key {
    if region.covers(new_prefix) {
        new_prefix
    } else {
        region
    }
}
/// navigate and report the region of the resulting view (the entries it must address are the
/// stored entries of the container inside that region)
pub fn navigate_region<'a, P: SimPrefix, T: SimVal>(v: TrieView<'a, P, T>, nav: &[Nav]) -> (TrieView<'a, P, T>, Key) {
    let mut region = v.prefix().raw().key();
    let mut v = v;
    for n in nav {
        v = navigate(v, std::slice::from_ref(n));
        region = narrow(region, v.prefix().raw().key());
    }
    (v, region)
}
pub fn navigate_mut_region<'a, P: SimPrefix, T: SimVal>(v: TrieViewMut<'a, P, T>, nav: &[Nav]) -> (TrieViewMut<'a, P, T>, Key) {
    let mut region = v.prefix().raw().key();
    let mut v = v;
    for n in nav {
        v = navigate_mut(v, std::slice::from_ref(n));
        region = narrow(region, v.prefix().raw().key());
    }
    (v, region)
}
pub fn navigate_mut<'a, P: SimPrefix, T: SimVal>(mut v: TrieViewMut<'a, P, T>, nav: &[Nav]) -> TrieViewMut<'a, P, T> {
    for n in nav {
        let next = match n {
            Nav::At(q) | Nav::Find(q) => v.find(P::make(*q)),
            Nav::Left => v.left(),
            Nav::Right => v.right(),
            Nav::FindExact(q) => v.find_exact(&P::make(*q)),
            Nav::FindLpm(q) => v.find_lpm(&P::make(*q)),
        };
        v = match next {
            Ok(n) => n,
            Err(orig) => orig,
        };
    }
    v
}

fn side_of(parent: Key, child: Key) -> bool {
    Key::addr_bit(child.bits, parent.len)
}

// ------------------------------------------------------------------------------------------- C11

pub fn pack_c11<P: SimPrefix, T: SimVal, C: ViewSrc<P, T>>(
    ctx: &mut Ctx,
    cfg: &Cfg,
    src: &C,
    t: &Truth,
    canonical: bool,
) -> R {
    let salt = ctx.salt ^ ctx.step as u64;
    let cap = 2 * t.nodes.len() + 8;
    let root = ctx.obs("C11", "view", || src.c_view())?;
    for (n, q) in probes::<P>(cfg, &t.ents).into_iter().enumerate() {
        let qr = noisy::<P>(q, salt);
        let exp = under(&t.ents, q);
        // alternately through the container's own view_at and through view().view_at
        let direct = (n as u64 + salt) % 2 == 0;
        let v = ctx.obs("C11", "view_at", || if direct { src.c_view_at(P::make(qr)) } else { root.clone().view_at(P::make(qr)) })?;
        if q.len == 0 || (n as u64 + salt) % 5 == 0 {
            // both paths must address the same thing
            let both = ctx.obs("C11", "view_at", || {
                let f = |w: TrieView<'_, P, T>| (w.prefix().raw().key(), w.value().map(|x| x.snap()), view_ents(&w, cap));
                (src.c_view_at(P::make(qr)).map(f), root.clone().view_at(P::make(qr)).map(f))
            })?;
            chk!(ctx, "C11", both.0 == both.1, "view_at:container-vs-view", "container.view_at({q}) = {:?} but container.view().view_at({q}) = {:?}", both.0, both.1);
        }
        match v {
            None => {
                chk!(ctx, "C11", exp.is_empty(), "view_at:none-but-entries", "view_at({q}) is None but {:?} are stored under it", exp);
            }
            Some(v) => {
                if canonical && q.len > 0 {
                    chk!(ctx, "C11", !exp.is_empty(), "view_at:exists-but-empty", "canonical trie: view_at({q}) exists but holds no entry");
                }
                let (vp, val, ents, keys, vals) = ctx.obs("C11", "view", || {
                    (
                        v.prefix().raw(),
                        v.value().map(|x| x.snap()),
                        view_ents(&v, cap),
                        v.keys().take(cap).map(|p| p.raw()).collect::<Vec<_>>(),
                        v.values().take(cap).map(|x| x.snap()).collect::<Vec<_>>(),
                    )
                })?;
                chk!(ctx, "C11", vp.key() == q, "view_at:prefix", "view_at({qr}).prefix() = {vp}, expected the network form {q}");
                let here = find_key(&t.ents, q).map(|e| e.v);
                chk!(ctx, "C11", val == here, "view_at:value", "view_at({q}).value() = {:?}, entry stored exactly there: {:?}", val, here);
                let expo: Vec<Ent> = exp.iter().map(|e| (*e).clone()).collect();
                chk!(ctx, "C11", ents == expo, "view_at:iter", "view_at({q}).iter() = {:?}, entries under {q}: {:?}", ents, expo);
                chk!(ctx, "C11", keys == expo.iter().map(|e| e.raw).collect::<Vec<_>>(), "view_at:keys", "view_at({q}).keys() = {:?}, expected {:?}", keys, expo);
                chk!(ctx, "C11", vals == expo.iter().map(|e| e.v).collect::<Vec<_>>(), "view_at:values", "view_at({q}).values() = {:?}, expected {:?}", vals, expo);
                if find_key(&t.ents, q).is_none() {
                    if t.nodes.iter().enumerate().any(|(i, n)| t.reachable[i] && n.raw.key() == q) {
                        ctx.hit("probe.view at branching/value-less node");
                    } else {
                        ctx.rare("probe.view at virtual position");
                    }
                }
                // one level of left/right from here (virtual views have their own code path)
                check_sides(ctx, &v, &t.ents, canonical, cap)?;
                // a clone of the view is the same view
                let (cp, cv, ce) = ctx.obs("C11", "TrieView::clone", || {
                    let c = v.clone();
                    (c.prefix().raw(), c.value().map(|x| x.snap()), view_ents(&c, cap))
                })?;
                // IntoIterator for TrieView, prefix_value()
                let (ii, pv) = ctx.obs("C11", "TrieView::into_iter", || {
                    let c = v.clone();
                    let pv = c.prefix_value().map(|(p, x)| (p.raw().key(), x.snap()));
                    (c.into_iter().take(cap).map(|(p, t)| Ent { key: p.raw().key(), raw: p.raw(), v: t.snap() }).collect::<Vec<_>>(), pv)
                })?;
                chk!(ctx, "C11", ii == ents, "view.into_iter", "view_at({q}).into_iter() yields {:?}, iter() yields {:?}", ii, ents);
                chk!(ctx, "C11", pv == here.map(|x| (q, x)), "view.prefix_value", "view_at({q}).prefix_value() = {:?}, entry stored exactly there: {:?}", pv, here);
                chk!(ctx, "C11", cp == vp && cv == val && ce == ents, "view.clone", "clone of view_at({q}): prefix {cp} value {:?} entries {:?}; original: prefix {vp} value {:?} entries {:?}", cv, ce, val, ents);
                if ctx.is("C11") && (mix64(salt ^ q.bits as u64) % 3 == 0) {
                    let jj = (mix64(salt ^ q.len as u64) % (expo.len() as u64 + 1)) as usize;
                    let r = ctx.obs("C11", "view.iter(consumers)", || crate::packs::consumer_checks(|| v.iter(), |(p, x)| (p.raw(), x.snap()), &expo.iter().map(|e| (e.raw, e.v)).collect::<Vec<_>>(), jj, 1))?;
                    if let Err((m, d)) = r {
                        chk!(ctx, "C11", false, format!("consumer:view.iter:{m}"), "view_at({q}).iter(): {d}");
                    }
                    let r = ctx.obs("C11", "view.keys(consumers)", || crate::packs::consumer_checks(|| v.keys(), |p| p.raw(), &expo.iter().map(|e| e.raw).collect::<Vec<_>>(), jj, 1))?;
                    if let Err((m, d)) = r {
                        chk!(ctx, "C11", false, format!("consumer:view.keys:{m}"), "view_at({q}).keys(): {d}");
                    }
                    let r = ctx.obs("C11", "view.values(consumers)", || crate::packs::consumer_checks(|| v.values(), |x| x.snap(), &expo.iter().map(|e| e.v).collect::<Vec<_>>(), jj, 1))?;
                    if let Err((m, d)) = r {
                        chk!(ctx, "C11", false, format!("consumer:view.values:{m}"), "view_at({q}).values(): {d}");
                    }
                }
                if q.len > 0 && (mix64(salt ^ q.bits as u64 ^ q.len as u64) % 4 == 0) {
                    for q2 in [q, q.parent().unwrap_or(q), if q.len < P::WIDTH { q.child(true) } else { q }, Key::ZERO] {
                        check_view_at_from(ctx, &v, q, &t.ents, q2, salt, cap)?;
                    }
                }
            }
        }
    }
    // chains along one edge: a virtual view found from a virtual view
    for (q1, q2) in edge_pairs(t, salt, 4) {
        if let Some(v1) = ctx.obs("C11", "view_at", || src.c_view_at(P::make(noisy::<P>(q1, salt))))? {
            ctx.rare("probe.virtual view found from a virtual view on the same edge");
            check_view_at_from(ctx, &v1, q1, &t.ents, q2, salt, cap)?;
        } else {
            chk!(ctx, "C11", false, "view_at:none-but-entries", "view_at({q1}) is None although a stored node lies below it");
        }
    }
    // recursive descent from the whole-container view
    let pr = probes::<P>(cfg, &t.ents);
    let mut stack = vec![(root.clone(), 0usize)];
    let mut visited = 0usize;
    while let Some((v, depth)) = stack.pop() {
        visited += 1;
        chk!(ctx, "C11", visited <= 2 * t.nodes.len() + 4 && depth <= P::WIDTH as usize + 1, "diverge:descent", "descent through left()/right() does not terminate (visited {visited}, depth {depth})");
        if visited > 2 * t.nodes.len() + 4 || depth > P::WIDTH as usize + 1 {
            break;
        }
        let (l, r) = check_sides(ctx, &v, &t.ents, canonical, cap)?;
        if visited <= 10 && depth > 0 {
            // view_at issued on this sub-view (queries inside, equal, covering, disjoint)
            let region = v.prefix().raw().key();
            for q in c12_queries::<P>(region, &pr, salt).into_iter().take(9) {
                check_view_at_from(ctx, &v, region, &t.ents, q, salt, cap)?;
            }
        }
        if let Some(r) = r {
            stack.push((r, depth + 1));
        }
        if let Some(l) = l {
            stack.push((l, depth + 1));
        }
    }
    Ok(())
}


/// `view_at(q)` called on a (sub-)view that owns `region`: it must address exactly the stored
/// entries inside the region that are covered by q, report q as its prefix, and the value stored
/// exactly at q (if q lies inside the region).
fn expected_view_at(truth: &[Ent], region: Key, q: Key) -> (Vec<Ent>, Option<u64>) {
    if region.covers(q) {
        (under(truth, q).into_iter().cloned().collect(), find_key(truth, q).map(|e| e.v))
    } else if q.covers(region) {
        (under(truth, region).into_iter().cloned().collect(), None)
    } else {
        (vec![], None)
    }
}

fn check_view_at_from<P: SimPrefix, T: SimVal>(ctx: &mut Ctx, v: &TrieView<'_, P, T>, region: Key, truth: &[Ent], q: Key, salt: u64, cap: usize) -> R {
    let (exp, here) = expected_view_at(truth, region, q);
    let qr = noisy::<P>(q, salt);
    let w = ctx.obs("C11", "view_at(on a view)", || v.clone().view_at(P::make(qr)))?;
    let got = ctx.obs("C11", "view_at(on a view)", || w.as_ref().map(|w| (w.prefix().raw().key(), w.value().map(|x| x.snap()), view_ents(w, cap))))?;
    match got {
        None => {
            chk!(ctx, "C11", exp.is_empty(), "subview.view_at:none-but-entries", "view {region}: view_at({q}) is None but the view's entries {:?} are covered by {q}", exp);
        }
        Some((p, val, ents)) => {
            ctx.rare("probe.view_at called on a sub-view");
            chk!(ctx, "C11", p == q, "subview.view_at:prefix", "view {region}: view_at({q}).prefix() = {p}");
            chk!(ctx, "C11", ents == exp, "subview.view_at:iter", "view {region}: view_at({q}) addresses {:?}, the view's entries covered by {q}: {:?}", ents, exp);
            chk!(ctx, "C11", val == here, "subview.view_at:value", "view {region}: view_at({q}).value() = {:?}, stored exactly there: {:?}", val, here);
            // the sides of a view obtained from a view
            if let Some(w) = &w {
                let refs: Vec<&Ent> = exp.iter().collect();
                check_sides_of(ctx, w, q, &refs, false, cap, "subview.")?;
            }
        }
    }
    Ok(())
}

/// pairs (q1, q2) of positions on one edge of the trie (between a node and its child, neither
/// of them a node): a view at q1 is virtual, and so is the view at q2 found from it
pub fn edge_pairs(t: &Truth, salt: u64, max: usize) -> Vec<(Key, Key)> {
    let mut out = vec![];
    let mut rng = Rng::new(salt ^ 0xED6E);
    for (i, n) in t.nodes.iter().enumerate() {
        if !t.reachable[i] {
            continue;
        }
        for c in [n.left, n.right].into_iter().flatten() {
            let (pk, ck) = (n.raw.key(), t.nodes[c].raw.key());
            if ck.len < pk.len + 3 {
                continue;
            }
            // lengths pk.len+1 ..= ck.len-1 are virtual positions on this edge
            let a = pk.len + 1 + (rng.below((ck.len - pk.len - 2) as u64) as u8);
            let b = a + 1 + (rng.below((ck.len - 1 - a) as u64) as u8);
            out.push((ck.truncate(a), ck.truncate(b)));
        }
    }
    rng.shuffle(&mut out);
    out.truncate(max);
    out
}

/// left()/right() of one view: prefixes extend the parent's with bit 0/1, entries partition
#[allow(clippy::type_complexity)]
fn check_sides<'a, P: SimPrefix, T: SimVal>(
    ctx: &mut Ctx,
    v: &TrieView<'a, P, T>,
    truth: &[Ent],
    canonical: bool,
    cap: usize,
) -> R<(Option<TrieView<'a, P, T>>, Option<TrieView<'a, P, T>>)> {
    let vp = ctx.obs("C11", "prefix", || v.prefix().raw().key())?;
    let all = under(truth, vp);
    check_sides_of(ctx, v, vp, &all, canonical, cap, "")
}

/// the same for a view at `vp` that must address exactly `all`
#[allow(clippy::type_complexity)]
fn check_sides_of<'a, P: SimPrefix, T: SimVal>(
    ctx: &mut Ctx,
    v: &TrieView<'a, P, T>,
    vp: Key,
    all: &[&Ent],
    canonical: bool,
    cap: usize,
    pre: &str,
) -> R<(Option<TrieView<'a, P, T>>, Option<TrieView<'a, P, T>>)> {
    let (l, r) = ctx.obs("C11", "left/right", || (v.left(), v.right()))?;
    for (right, side) in [(false, &l), (true, &r)] {
        let name = if right { "right" } else { "left" };
        let exp: Vec<Ent> = all.iter().filter(|e| e.key.len > vp.len && side_of(vp, e.key) == right).map(|e| (*e).clone()).collect();
        match side {
            None => {
                chk!(ctx, "C11", exp.is_empty(), format!("{pre}{name}:none-but-entries"), "view {vp}: {name}() is None but entries {:?} lie on that side", exp);
            }
            Some(s) => {
                let (sp, ents) = ctx.obs("C11", "side", || (s.prefix().raw().key(), view_ents(s, cap)))?;
                chk!(ctx, "C11", sp.len > vp.len && vp.covers(sp) && side_of(vp, sp) == right, format!("{pre}{name}:prefix"), "view {vp}: {name}() has prefix {sp}, which does not extend {vp} with bit {}", right as u8);
                chk!(ctx, "C11", ents == exp, format!("{pre}{name}:entries"), "view {vp}: {name}().iter() = {:?}, entries under {vp} with next bit {}: {:?}", ents, right as u8, exp);
                if canonical {
                    chk!(ctx, "C11", !exp.is_empty(), format!("{pre}{name}:exists-but-empty"), "canonical trie: view {vp}.{name}() exists but holds no entry");
                }
            }
        }
    }
    Ok((l, r))
}

/// everything observable about one mutable view, gathered while consuming it
#[derive(Debug, PartialEq)]
pub struct MutFacts {
    p: Key,
    val: Option<u64>,
    ents: Vec<Ent>,
    hl: bool,
    hr: bool,
    /// (right side?, Some((prefix, entries)) if that side exists)
    sides: Vec<(bool, Option<(Key, Vec<Ent>)>)>,
}
pub fn mut_facts<P: SimPrefix, T: SimVal>(w: TrieViewMut<'_, P, T>, cap: usize, strategy: u64) -> MutFacts {
    let p = w.prefix().raw().key();
    let val = w.value().map(|x| x.snap());
    let ents = view_ents(&(&w).view(), cap);
    let (hl, hr) = (w.has_left(), w.has_right());
    let f = |s: TrieViewMut<'_, P, T>| (s.prefix().raw().key(), view_ents(&(&s).view(), cap));
    let sides = match strategy % 3 {
        0 => {
            let (l, r) = w.split();
            vec![(false, l.map(f)), (true, r.map(f))]
        }
        1 => vec![(false, w.left().ok().map(f))],
        _ => vec![(true, w.right().ok().map(f))],
    };
    MutFacts { p, val, ents, hl, hr, sides }
}
/// a mutable view that must sit at `q`, hold `here` and address exactly `exp`
fn check_mut_facts(ctx: &mut Ctx, f: &MutFacts, what: &str, q: Key, exp: &[Ent], here: Option<u64>, pre: &str) -> R {
    chk!(ctx, "C11", f.p == q, format!("{pre}:prefix"), "{what}: prefix() = {}, expected {q}", f.p);
    chk!(ctx, "C11", f.ents == exp, format!("{pre}:iter"), "{what}: addresses {:?}, expected {:?}", f.ents, exp);
    chk!(ctx, "C11", f.val == here, format!("{pre}:value"), "{what}: value() = {:?}, stored exactly there: {:?}", f.val, here);
    for (right, side) in &f.sides {
        let name = if *right { "right" } else { "left" };
        let has = if *right { f.hr } else { f.hl };
        let e: Vec<Ent> = exp.iter().filter(|e| e.key.len > q.len && side_of(q, e.key) == *right).cloned().collect();
        chk!(ctx, "C11", has == side.is_some(), format!("{pre}:has_{name}"), "{what}: has_{name}() = {has} but {name}()/split() gives {}", side.is_some());
        match side {
            None => {
                chk!(ctx, "C11", e.is_empty(), format!("{pre}:{name}:none-but-entries"), "{what}: no {name} side but entries {:?} lie there", e);
            }
            Some((sp, se)) => {
                chk!(ctx, "C11", sp.len > q.len && q.covers(*sp) && side_of(q, *sp) == *right, format!("{pre}:{name}:prefix"), "{what}: {name} side has prefix {sp}");
                chk!(ctx, "C11", *se == e, format!("{pre}:{name}:entries"), "{what}: {name} side addresses {:?}, expected {:?}", se, e);
            }
        }
    }
    // has_left/has_right also when only one side was taken
    let l: Vec<&Ent> = exp.iter().filter(|e| e.key.len > q.len && !side_of(q, e.key)).collect();
    let r: Vec<&Ent> = exp.iter().filter(|e| e.key.len > q.len && side_of(q, e.key)).collect();
    chk!(ctx, "C11", f.hl || l.is_empty(), format!("{pre}:has_left:false-but-entries"), "{what}: has_left() = false but {:?} lie on the left", l);
    chk!(ctx, "C11", f.hr || r.is_empty(), format!("{pre}:has_right:false-but-entries"), "{what}: has_right() = false but {:?} lie on the right", r);
    Ok(())
}

/// the same through mutable views (split / left / right / has_left / has_right, view_mut_at)
pub fn pack_c11_mut<P: SimPrefix, T: SimVal, C: ViewSrc<P, T>>(ctx: &mut Ctx, cfg: &Cfg, real: &mut C, t: &Truth, canonical: bool) -> R {
    let salt = ctx.salt ^ ctx.step as u64;
    let cap = 2 * t.nodes.len() + 8;
    for (n, q) in probes::<P>(cfg, &t.ents).into_iter().enumerate() {
        if (n + ctx.step) % 3 != 0 && q.len != 0 {
            continue;
        }
        let qr = noisy::<P>(q, salt);
        let exp: Vec<Ent> = under(&t.ents, q).into_iter().cloned().collect();
        let got = ctx.obs("C11", "view_mut_at", || {
            real.c_view_mut_at(P::make(qr)).map(|vm| {
                let ro = (&vm).view();
                let x = (ro.prefix().raw(), ro.value().map(|x| x.snap()), vm.prefix_value().map(|(p, x)| (p.raw(), x.snap())));
                (x, mut_facts(vm, cap, mix64(salt ^ n as u64)))
            })
        })?;
        match got {
            None => {
                chk!(ctx, "C11", exp.is_empty(), "view_mut_at:none-but-entries", "view_mut_at({q}) is None but {:?} are stored under it", exp);
            }
            Some(((rop, rov, pv), f)) => {
                let here = find_key(&t.ents, q);
                chk!(ctx, "C11", rop.key() == q && rov == f.val, "view_mut_at:as-view", "view_mut_at({qr}) as read-only view: prefix {rop} value {:?}, expected {q} and {:?}", rov, f.val);
                chk!(ctx, "C11", pv.map(|x| (x.0.key(), x.1)) == here.map(|e| (e.key, e.v)), "view_mut_at:prefix_value", "view_mut_at({q}).prefix_value() = {:?}, stored there: {:?}", pv, here);
                check_mut_facts(ctx, &f, &format!("view_mut_at({q})"), q, &exp, here.map(|e| e.v), "view_mut_at")?;
                if canonical && q.len > 0 {
                    chk!(ctx, "C11", !exp.is_empty(), "view_mut_at:exists-but-empty", "canonical trie: view_mut_at({q}) exists but holds no entry");
                }
            }
        }
    }
    // view_mut_at / find issued on a mutable sub-view
    let pr = probes::<P>(cfg, &t.ents);
    let mut rng = Rng::new(salt ^ 0xFACE);
    let mut pairs: Vec<(Key, Key)> = edge_pairs(t, salt ^ 0x33, 4);
    if pairs.first().is_some() {
        ctx.rare("probe.mutable virtual view found from a mutable virtual view on the same edge");
    }
    for _ in 0..6 {
        if pr.is_empty() {
            break;
        }
        let vq = *rng.pick(&pr);
        if vq.len == 0 {
            continue;
        }
        for q in c12_queries::<P>(vq, &pr, salt).into_iter().take(7) {
            pairs.push((vq, q));
        }
    }
    for (n, (vq, q)) in pairs.into_iter().enumerate() {
        let (exp, here) = expected_view_at(&t.ents, vq, q);
        let via_find = (n as u64 + salt) % 2 == 0;
        let got = ctx.obs("C11", "view_mut_at(on a view)", || {
            real.c_view_mut_at(P::make(vq.raw())).map(|vm| {
                let w = if via_find { vm.find(P::make(noisy::<P>(q, salt))).ok() } else { vm.view_mut_at(P::make(noisy::<P>(q, salt))) };
                w.map(|w| mut_facts(w, cap, mix64(salt ^ n as u64 ^ 0x51)))
            })
        })?;
        let Some(got) = got else { continue };
        match got {
            None => {
                chk!(ctx, "C11", exp.is_empty(), "subview.view_mut_at:none-but-entries", "mutable view {vq}: view_mut_at({q}) is None but the view's entries {:?} are covered by {q}", exp);
            }
            Some(f) => {
                check_mut_facts(ctx, &f, &format!("mutable view {vq}: view_mut_at({q})"), q, &exp, here, "subview.view_mut_at")?;
            }
        }
    }
    // recursive descent, consuming the views
    let root = real.c_view_mut();
    let mut stack = vec![(root, 0usize)];
    let mut visited = 0usize;
    while let Some((vm, depth)) = stack.pop() {
        visited += 1;
        if visited > 2 * t.nodes.len() + 4 || depth > P::WIDTH as usize + 1 {
            chk!(ctx, "C11", false, "diverge:descent_mut", "descent through split() does not terminate");
            break;
        }
        let (vp, hl, hr, ents) = ctx.obs("C11", "view_mut", || (vm.prefix().raw().key(), vm.has_left(), vm.has_right(), view_ents(&(&vm).view(), cap)))?;
        let all: Vec<Ent> = under(&t.ents, vp).into_iter().cloned().collect();
        chk!(ctx, "C11", ents == all, "view_mut:entries", "mutable view {vp} addresses {:?}, entries under it: {:?}", ents, all);
        let strategy = mix64(salt ^ vp.bits as u64 ^ ((vp.len as u64) << 40)) % 4;
        let sides: Vec<(bool, Option<TrieViewMut<'_, P, T>>, bool)> = match strategy {
            0 | 1 => {
                let (l, r) = ctx.obs("C11", "split", || vm.split())?;
                vec![(false, l, true), (true, r, true)]
            }
            2 => match ctx.obs("C11", "left", || vm.left())? {
                Ok(l) => vec![(false, Some(l), true)],
                Err(orig) => {
                    let p = orig.prefix().raw().key();
                    chk!(ctx, "C11", p == vp, "left:err-view", "left() failed but handed back a view at {p} instead of {vp}");
                    vec![(false, None, true)]
                }
            },
            _ => match ctx.obs("C11", "right", || vm.right())? {
                Ok(r) => vec![(true, Some(r), true)],
                Err(orig) => {
                    let p = orig.prefix().raw().key();
                    chk!(ctx, "C11", p == vp, "right:err-view", "right() failed but handed back a view at {p} instead of {vp}");
                    vec![(true, None, true)]
                }
            },
        };
        for (right, side, _) in sides {
            let name = if right { "right" } else { "left" };
            let has = if right { hr } else { hl };
            chk!(ctx, "C11", has == side.is_some(), format!("has_{name}"), "mutable view {vp}: has_{name}() = {has} but {name}()/split() gives {}", side.is_some());
            let exp: Vec<Ent> = all.iter().filter(|e| e.key.len > vp.len && side_of(vp, e.key) == right).cloned().collect();
            match side {
                None => {
                    chk!(ctx, "C11", exp.is_empty(), format!("mut.{name}:none-but-entries"), "mutable view {vp}: no {name} side but entries {:?} lie there", exp);
                }
                Some(s) => {
                    let sp = s.prefix().raw().key();
                    chk!(ctx, "C11", sp.len > vp.len && vp.covers(sp) && side_of(vp, sp) == right, format!("mut.{name}:prefix"), "mutable view {vp}: {name} side has prefix {sp}");
                    if canonical {
                        chk!(ctx, "C11", !exp.is_empty(), format!("mut.{name}:exists-but-empty"), "canonical trie: mutable view {vp} has an empty {name} side");
                    }
                    stack.push((s, depth + 1));
                }
            }
        }
    }
    Ok(())
}

// ------------------------------------------------------------------------------------------- C12

fn c12_queries<P: SimPrefix>(vp: Key, pr: &[Key], salt: u64) -> Vec<Key> {
    let mut qs = vec![vp, Key::ZERO];
    if let Some(p) = vp.parent() {
        qs.push(p);
        qs.push(p.child(!Key::addr_bit(vp.bits, p.len))); // sibling: disjoint
    }
    if vp.len < P::WIDTH {
        qs.push(vp.child(false));
        qs.push(vp.child(true));
    }
    if vp.len > 1 {
        qs.push(vp.truncate(vp.len / 2));
    }
    // shorter than the view's prefix and disjoint from it: the sibling of an ancestor
    for l in [1u8, vp.len / 2, vp.len.saturating_sub(1)] {
        if l >= 1 && l < vp.len {
            let anc = vp.truncate(l);
            if let Some(p) = anc.parent() {
                qs.push(p.child(!Key::addr_bit(anc.bits, p.len)));
            }
        }
    }
    let mut rng = Rng::new(salt ^ vp.bits as u64 ^ vp.len as u64);
    for _ in 0..10.min(pr.len()) {
        qs.push(*rng.pick(pr));
    }
    qs
}

pub fn pack_c12<P: SimPrefix, T: SimVal>(ctx: &mut Ctx, cfg: &Cfg, root: TrieView<'_, P, T>, t: &Truth) -> R {
    let salt = ctx.salt ^ (ctx.step as u64).wrapping_mul(0x9E37);
    let cap = 2 * t.nodes.len() + 8;
    let pr = probes::<P>(cfg, &t.ents);
    let mut rng = Rng::new(salt);
    // sample views: via view_at on probes, then optionally one left/right step
    let mut views: Vec<TrieView<'_, P, T>> = vec![root.clone()];
    for _ in 0..10 {
        if pr.is_empty() {
            break;
        }
        let q = *rng.pick(&pr);
        if q.len == 0 {
            continue;
        }
        if let Some(v) = ctx.obs("C12", "view_at", || root.clone().view_at(P::make(noisy::<P>(q, salt))))? {
            if rng.chance(1, 3) {
                let s = ctx.obs("C12", "left/right", || if rng.chance(1, 2) { v.left() } else { v.right() })?;
                if let Some(s) = s {
                    views.push(s);
                    continue;
                }
            }
            views.push(v);
        }
    }
    for v in views {
        let (vp, ve) = ctx.obs("C12", "view", || (v.prefix().raw().key(), view_ents(&v, cap)))?;
        let virt = !t.nodes.iter().enumerate().any(|(i, n)| t.reachable[i] && n.raw.key() == vp);
        for q in c12_queries::<P>(vp, &pr, salt) {
            let qr = noisy::<P>(q, salt ^ 0x77);
            let rel = if q == vp {
                "equal"
            } else if vp.covers(q) {
                "inside"
            } else if q.covers(vp) {
                "covering"
            } else {
                "disjoint"
            };
            match (rel, virt) {
                ("covering", _) => ctx.rare("probe.find query covering the view root"),
                ("disjoint", _) => ctx.rare("probe.find query disjoint from the view root"),
                (_, true) => ctx.rare("probe.find from virtual root"),
                _ => ctx.hit("probe.find from real root, query inside"),
            }
            // find
            let exp: Vec<Ent> = ve.iter().filter(|e| q.covers(e.key)).cloned().collect();
            let got = ctx.obs("C12", "find", || v.find(P::make(qr)).map(|x| view_ents(&x, cap)))?;
            match &got {
                None => {
                    chk!(ctx, "C12", exp.is_empty(), format!("find:none-but-entries:{rel}"), "view {vp}{}: find({q}) is None but the view's entries {:?} are covered by {q}", if virt { " (virtual)" } else { "" }, exp);
                }
                Some(g) => {
                    chk!(ctx, "C12", *g == exp, format!("find:entries:{rel}"), "view {vp}{}: find({q}) addresses {:?}, the view's entries covered by {q}: {:?} (view holds {:?})", if virt { " (virtual)" } else { "" }, g, exp, ve);
                }
            }
            // view_at on a view == find
            let got2 = ctx.obs("C12", "view_at", || v.clone().view_at(P::make(qr)).map(|x| view_ents(&x, cap)))?;
            chk!(ctx, "C12", got2 == got, "view_at-vs-find", "view {vp}: view_at({q}) = {:?} but find({q}) = {:?}", got2, got);
            // find_exact
            let expx = find_key(&ve, q);
            let got = ctx.obs("C12", "find_exact", || v.find_exact(&P::make(qr)).map(|x| (x.prefix().raw().key(), x.value().map(|t| t.snap()), view_ents(&x, cap))))?;
            match (&got, expx) {
                (None, None) => {}
                (Some((gp, gv, ge)), Some(e)) => {
                    let sub: Vec<Ent> = ve.iter().filter(|x| q.covers(x.key)).cloned().collect();
                    chk!(ctx, "C12", *gp == q && *gv == Some(e.v) && *ge == sub, format!("find_exact:position:{rel}"), "view {vp}: find_exact({q}) is positioned at {gp} value {:?} entries {:?}; expected {q} value {} entries {:?}", gv, ge, e.v, sub);
                }
                _ => {
                    chk!(ctx, "C12", false, format!("find_exact:presence:{rel}"), "view {vp}{}: find_exact({q}) = {:?} but {q} stored in the view: {:?} (view holds {:?})", if virt { " (virtual)" } else { "" }, got, expx, ve);
                }
            }
            // find_lpm
            let expl = lpm(&ve, q);
            let got = ctx.obs("C12", "find_lpm", || v.find_lpm(&P::make(qr)).map(|x| (x.prefix().raw().key(), x.value().map(|t| t.snap()))))?;
            chk!(ctx, "C12", got.map(|g| (g.0, g.1)) == expl.map(|e| (e.key, Some(e.v))), format!("find_lpm:{rel}"), "view {vp}{}: find_lpm({q}) = {:?}, longest prefix of the view covering {q}: {:?} (view holds {:?})", if virt { " (virtual)" } else { "" }, got, expl, ve);
        }
    }
    Ok(())
}

/// mutable twins: same answers, and the original view comes back on failure
pub fn pack_c12_mut<P: SimPrefix>(ctx: &mut Ctx, cfg: &Cfg, real: &mut PrefixMap<P, crate::val::Val>, t: &Truth) -> R {
    let salt = ctx.salt ^ (ctx.step as u64).wrapping_mul(0x9E37) ^ 0xABCD;
    let cap = 2 * t.nodes.len() + 8;
    let pr = probes::<P>(cfg, &t.ents);
    let mut rng = Rng::new(salt);
    for _ in 0..6 {
        if pr.is_empty() {
            break;
        }
        let vq = *rng.pick(&pr);
        let ve: Vec<Ent> = under(&t.ents, vq).into_iter().cloned().collect();
        for q in c12_queries::<P>(vq, &pr, salt).into_iter().take(10) {
            let qr = noisy::<P>(q, salt);
            for op in 0..3 {
                let name = ["find", "find_exact", "find_lpm"][op];
                // read-only answer from the same position
                let ro = ctx.obs("C12", name, || {
                    (&*real).view_at(P::make(vq.raw())).map(|v| {
                        let r = match op {
                            0 => v.find(P::make(qr)),
                            1 => v.find_exact(&P::make(qr)),
                            _ => v.find_lpm(&P::make(qr)),
                        };
                        r.map(|x| (x.prefix().raw().key(), view_ents(&x, cap)))
                    })
                })?;
                let Some(ro) = ro else { continue };
                let mt = ctx.obs("C12", name, || {
                    let vm = (&mut *real).view_mut_at(P::make(vq.raw())).expect("view_at succeeded");
                    let r = match op {
                        0 => vm.find(P::make(qr)),
                        1 => vm.find_exact(&P::make(qr)),
                        _ => vm.find_lpm(&P::make(qr)),
                    };
                    match r {
                        Ok(x) => Ok((x.prefix().raw().key(), view_ents(&(&x).view(), cap))),
                        Err(o) => Err((o.prefix().raw().key(), view_ents(&(&o).view(), cap))),
                    }
                })?;
                match (&ro, &mt) {
                    (Some(a), Ok(b)) => {
                        chk!(ctx, "C12", a == b, format!("mut.{name}:differs"), "view {vq}: mutable {name}({q}) gives view {:?}, read-only gives {:?}", b, a);
                    }
                    (None, Err(o)) => {
                        chk!(ctx, "C12", o.0 == vq && o.1 == ve, format!("mut.{name}:err-view"), "view {vq}: mutable {name}({q}) failed and handed back view {:?}, expected the original ({vq}, {:?})", o, ve);
                    }
                    _ => {
                        chk!(ctx, "C12", false, format!("mut.{name}:presence"), "view {vq}: mutable {name}({q}) = {:?} but read-only = {:?}", mt, ro);
                    }
                }
            }
        }
    }
    Ok(())
}

// ------------------------------------------------------------------------------------------- C15

pub fn walk<P: SimPrefix, T: SimVal>(root: TrieView<'_, P, T>, max_nodes: usize) -> (Vec<ShapeNode>, Vec<String>) {
    let mut out = vec![];
    let mut errs = vec![];
    let rk = root.prefix().raw().key();
    if rk != Key::ZERO {
        errs.push(format!("root:not-zero|root view has prefix {rk}"));
    }
    let mut stack = vec![(root, 1usize)];
    while let Some((v, depth)) = stack.pop() {
        if out.len() > max_nodes {
            errs.push("diverge:walk|walk through left()/right() exceeds the arena size".into());
            break;
        }
        if depth > P::WIDTH as usize + 1 {
            errs.push(format!("depth|path longer than width+1 = {} nodes", P::WIDTH as usize + 1));
            continue;
        }
        let k = v.prefix().raw().key();
        let (l, r) = (v.left(), v.right());
        let lk = l.as_ref().map(|x| x.prefix().raw().key());
        let rk = r.as_ref().map(|x| x.prefix().raw().key());
        for (right, ck) in [(false, lk), (true, rk)] {
            if let Some(c) = ck {
                if !(c.len > k.len) {
                    errs.push(format!("child-not-longer|child {c} of {k} is not strictly longer"));
                } else if !k.covers(c) {
                    errs.push(format!("child-not-covered|child {c} is not covered by its parent {k}"));
                } else if side_of(k, c) != right {
                    errs.push(format!("child-wrong-side|child {c} of {k} hangs on the {} side", if right { "right" } else { "left" }));
                }
            }
        }
        out.push(ShapeNode { key: k, has_value: v.value().is_some(), left: lk, right: rk });
        if let Some(r) = r {
            stack.push((r, depth + 1));
        }
        if let Some(l) = l {
            stack.push((l, depth + 1));
        }
    }
    (out, errs)
}

pub fn pack_c15<P: SimPrefix, T: SimVal>(ctx: &mut Ctx, root: TrieView<'_, P, T>, t: &Truth, canonical: bool, fresh: Option<Vec<ShapeNode>>) -> R {
    for e in &t.walk_errors {
        chk!(ctx, "C15", false, "arena-graph", "arena graph is not a tree: {e}");
    }
    let (mut shape, errs) = ctx.obs("C15", "walk", || walk(root, 2 * t.nodes.len() + 4))?;
    for e in errs {
        let (sig, text) = e.split_once('|').unwrap_or(("wf", &e));
        chk!(ctx, "C15", false, format!("wf:{sig}"), "not a well-formed trie: {text}");
    }
    if canonical {
        shape.sort();
        let keys: Vec<Key> = t.ents.iter().map(|e| e.key).collect();
        let mut canon = canonical_shape(&keys);
        canon.sort();
        if shape.iter().any(|n| !n.has_value && n.key.len > 0) {
            ctx.rare("probe.canonical shape with branching nodes");
        }
        for n in &shape {
            if !n.has_value && n.key.len > 0 {
                chk!(ctx, "C15", n.left.is_some() && n.right.is_some(), "canon:valueless-with-<2-children", "insert/remove/retain/clear history, but value-less node {} has {} child(ren)", n.key, n.left.is_some() as u8 + n.right.is_some() as u8);
            }
        }
        chk!(ctx, "C15", shape == canon, "canon:shape-vs-model", "insert/remove/retain/clear history, but the observable shape {:?} differs from the canonical shape of the surviving keys {:?}", shape, canon);
        if let Some(mut f) = fresh {
            f.sort();
            chk!(ctx, "C15", shape == f, "canon:shape-vs-fresh", "observable shape {:?} differs from that of a map freshly built from the surviving keys {:?}", shape, f);
        }
    } else {
        ctx.rare("probe.non-canonical state checked for well-formedness");
    }
    Ok(())
}
