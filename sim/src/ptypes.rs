//! The 14 shipped prefix types behind one harness trait. `make`/`raw` only use the concrete
//! types' own constructors/accessors, never the library's `Prefix` trait.

use crate::key::Raw;
use cidr::{Ipv4Cidr, Ipv4Inet, Ipv6Cidr, Ipv6Inet};
use ipnet::{Ipv4Net, Ipv6Net};
use ipnetwork::{Ipv4Network, Ipv6Network};
use serde::{Deserialize, Serialize};
use std::net::{Ipv4Addr, Ipv6Addr};

pub trait SimPrefix:
    prefix_trie::Prefix + Clone + PartialEq + Eq + std::hash::Hash + std::fmt::Debug + Send + Sync + 'static
{
    const WIDTH: u8;
    const KEEPS_HOST: bool;
    const NAME: &'static str;
    fn make(r: Raw) -> Self;
    fn raw(&self) -> Raw;
    /// JSON round trip of a map through the library's serde implementation (None: the key type
    /// cannot be a JSON map key / has no serde support compiled in).
    fn serde_map<T: Serialize + for<'de> Deserialize<'de>>(
        _m: &prefix_trie::PrefixMap<Self, T>,
    ) -> Option<Result<prefix_trie::PrefixMap<Self, T>, String>> {
        None
    }
    fn serde_set(_m: &prefix_trie::PrefixSet<Self>) -> Option<Result<prefix_trie::PrefixSet<Self>, String>> {
        None
    }
}

macro_rules! tuple_impl {
    ($t:ty, $w:expr, $name:expr) => {
        impl SimPrefix for ($t, u8) {
            const WIDTH: u8 = $w;
            const KEEPS_HOST: bool = true;
            const NAME: &'static str = $name;
            fn make(r: Raw) -> Self {
                ((r.addr >> (128 - $w as u32)) as $t, r.len)
            }
            fn raw(&self) -> Raw {
                Raw { addr: (self.0 as u128) << (128 - $w as u32), len: self.1 }
            }
        }
    };
}
tuple_impl!(u8, 8, "u8");
tuple_impl!(u16, 16, "u16");
tuple_impl!(u32, 32, "u32");
tuple_impl!(u64, 64, "u64");
tuple_impl!(usize, 64, "usize");

impl SimPrefix for (u128, u8) {
    const WIDTH: u8 = 128;
    const KEEPS_HOST: bool = true;
    const NAME: &'static str = "u128";
    fn make(r: Raw) -> Self {
        (r.addr, r.len)
    }
    fn raw(&self) -> Raw {
        Raw { addr: self.0, len: self.1 }
    }
}

fn v4(r: Raw) -> Ipv4Addr {
    Ipv4Addr::from((r.addr >> 96) as u32)
}
fn v6(r: Raw) -> Ipv6Addr {
    Ipv6Addr::from(r.addr)
}
fn from4(a: Ipv4Addr) -> u128 {
    (u32::from(a) as u128) << 96
}
fn from6(a: Ipv6Addr) -> u128 {
    u128::from(a)
}

macro_rules! serde_impl {
    () => {
        fn serde_map<T: Serialize + for<'de> Deserialize<'de>>(
            m: &prefix_trie::PrefixMap<Self, T>,
        ) -> Option<Result<prefix_trie::PrefixMap<Self, T>, String>> {
            Some((|| {
                let s = serde_json::to_string(m).map_err(|e| format!("ser: {e}"))?;
                serde_json::from_str(&s).map_err(|e| format!("de: {e}"))
            })())
        }
        fn serde_set(m: &prefix_trie::PrefixSet<Self>) -> Option<Result<prefix_trie::PrefixSet<Self>, String>> {
            Some((|| {
                let s = serde_json::to_string(m).map_err(|e| format!("ser: {e}"))?;
                serde_json::from_str(&s).map_err(|e| format!("de: {e}"))
            })())
        }
    };
}

impl SimPrefix for Ipv4Net {
    const WIDTH: u8 = 32;
    const KEEPS_HOST: bool = true;
    const NAME: &'static str = "Ipv4Net";
    fn make(r: Raw) -> Self {
        Ipv4Net::new(v4(r), r.len).unwrap()
    }
    fn raw(&self) -> Raw {
        Raw { addr: from4(self.addr()), len: self.prefix_len() }
    }
    serde_impl!();
}
impl SimPrefix for Ipv6Net {
    const WIDTH: u8 = 128;
    const KEEPS_HOST: bool = true;
    const NAME: &'static str = "Ipv6Net";
    fn make(r: Raw) -> Self {
        Ipv6Net::new(v6(r), r.len).unwrap()
    }
    fn raw(&self) -> Raw {
        Raw { addr: from6(self.addr()), len: self.prefix_len() }
    }
    serde_impl!();
}
impl SimPrefix for Ipv4Network {
    const WIDTH: u8 = 32;
    const KEEPS_HOST: bool = true;
    const NAME: &'static str = "Ipv4Network";
    fn make(r: Raw) -> Self {
        Ipv4Network::new(v4(r), r.len).unwrap()
    }
    fn raw(&self) -> Raw {
        Raw { addr: from4(self.ip()), len: self.prefix() }
    }
    serde_impl!();
}
impl SimPrefix for Ipv6Network {
    const WIDTH: u8 = 128;
    const KEEPS_HOST: bool = true;
    const NAME: &'static str = "Ipv6Network";
    fn make(r: Raw) -> Self {
        Ipv6Network::new(v6(r), r.len).unwrap()
    }
    fn raw(&self) -> Raw {
        Raw { addr: from6(self.ip()), len: self.prefix() }
    }
    serde_impl!();
}
impl SimPrefix for Ipv4Cidr {
    const WIDTH: u8 = 32;
    const KEEPS_HOST: bool = false;
    const NAME: &'static str = "Ipv4Cidr";
    fn make(r: Raw) -> Self {
        Ipv4Cidr::new(v4(r.key().raw()), r.len).unwrap()
    }
    fn raw(&self) -> Raw {
        Raw { addr: from4(self.first_address()), len: self.network_length() }
    }
}
impl SimPrefix for Ipv6Cidr {
    const WIDTH: u8 = 128;
    const KEEPS_HOST: bool = false;
    const NAME: &'static str = "Ipv6Cidr";
    fn make(r: Raw) -> Self {
        Ipv6Cidr::new(v6(r.key().raw()), r.len).unwrap()
    }
    fn raw(&self) -> Raw {
        Raw { addr: from6(self.first_address()), len: self.network_length() }
    }
}
impl SimPrefix for Ipv4Inet {
    const WIDTH: u8 = 32;
    const KEEPS_HOST: bool = true;
    const NAME: &'static str = "Ipv4Inet";
    fn make(r: Raw) -> Self {
        Ipv4Inet::new(v4(r), r.len).unwrap()
    }
    fn raw(&self) -> Raw {
        Raw { addr: from4(self.address()), len: self.network_length() }
    }
}
impl SimPrefix for Ipv6Inet {
    const WIDTH: u8 = 128;
    const KEEPS_HOST: bool = true;
    const NAME: &'static str = "Ipv6Inet";
    fn make(r: Raw) -> Self {
        Ipv6Inet::new(v6(r), r.len).unwrap()
    }
    fn raw(&self) -> Raw {
        Raw { addr: from6(self.address()), len: self.network_length() }
    }
}

#[derive(Clone, Copy, Debug, PartialEq, Eq, Serialize, Deserialize, PartialOrd, Ord, Hash)]
pub enum PType {
    U8,
    U16,
    U32,
    U64,
    U128,
    Usize,
    V4Net,
    V6Net,
    V4Network,
    V6Network,
    V4Cidr,
    V6Cidr,
    V4Inet,
    V6Inet,
}

pub const ALL_PTYPES: [PType; 14] = [
    PType::U8,
    PType::U16,
    PType::U32,
    PType::U64,
    PType::U128,
    PType::Usize,
    PType::V4Net,
    PType::V6Net,
    PType::V4Network,
    PType::V6Network,
    PType::V4Cidr,
    PType::V6Cidr,
    PType::V4Inet,
    PType::V6Inet,
];

impl PType {
    pub fn width(self) -> u8 {
        match self {
            PType::U8 => 8,
            PType::U16 => 16,
            PType::U32 | PType::V4Net | PType::V4Network | PType::V4Cidr | PType::V4Inet => 32,
            PType::U64 | PType::Usize => 64,
            _ => 128,
        }
    }
    pub fn keeps_host(self) -> bool {
        !matches!(self, PType::V4Cidr | PType::V6Cidr)
    }
    pub fn has_serde(self) -> bool {
        matches!(self, PType::V4Net | PType::V6Net | PType::V4Network | PType::V6Network)
    }
}

/// Dispatch a generic function over the concrete prefix type.
#[macro_export]
macro_rules! with_ptype {
    ($pt:expr, $f:ident ( $($args:expr),* )) => {
        match $pt {
            $crate::ptypes::PType::U8 => $f::<(u8, u8)>($($args),*),
            $crate::ptypes::PType::U16 => $f::<(u16, u8)>($($args),*),
            $crate::ptypes::PType::U32 => $f::<(u32, u8)>($($args),*),
            $crate::ptypes::PType::U64 => $f::<(u64, u8)>($($args),*),
            $crate::ptypes::PType::U128 => $f::<(u128, u8)>($($args),*),
            $crate::ptypes::PType::Usize => $f::<(usize, u8)>($($args),*),
            $crate::ptypes::PType::V4Net => $f::<ipnet::Ipv4Net>($($args),*),
            $crate::ptypes::PType::V6Net => $f::<ipnet::Ipv6Net>($($args),*),
            $crate::ptypes::PType::V4Network => $f::<ipnetwork::Ipv4Network>($($args),*),
            $crate::ptypes::PType::V6Network => $f::<ipnetwork::Ipv6Network>($($args),*),
            $crate::ptypes::PType::V4Cidr => $f::<cidr::Ipv4Cidr>($($args),*),
            $crate::ptypes::PType::V6Cidr => $f::<cidr::Ipv6Cidr>($($args),*),
            $crate::ptypes::PType::V4Inet => $f::<cidr::Ipv4Inet>($($args),*),
            $crate::ptypes::PType::V6Inet => $f::<cidr::Ipv6Inet>($($args),*),
        }
    };
}
