//! Sessions: several handles alive at once, stepped in scheduler order.
//!  - read sessions: iterators / covers / view iterators / set operations (N3 of DESIGN.md)
//!  - mutable sessions: a pool of disjoint mutable views, live mutable iterators and *held*
//!    mutable references which are written in scheduler order (C13, C14)

use crate::chk;
use crate::ctx::{Ctx, R};
use crate::exec::World;
use crate::key::{Key, Raw};
use crate::ptypes::SimPrefix;
use crate::rng::Rng;
use crate::script::*;
use crate::setops::{model_covering_difference, model_difference, model_intersection, model_union, SItem};
use crate::truth::{cover, truth_of, under, Ent, Truth};
use crate::val::{SimVal, Val};
use crate::views::{navigate_mut_region, navigate_region, view_ents};
use prefix_trie::map::IterMut;
use prefix_trie::trieview::UnionItem;
use prefix_trie::{AsView, AsViewMut, PrefixMap, PrefixSet, TrieView, TrieViewMut};
use std::collections::{BTreeMap, BTreeSet};
use std::rc::Rc;

// =========================================================================== read sessions

trait H<'a> {
    fn next(&mut self) -> Option<SItem>;
    fn try_clone(&self) -> Option<Box<dyn H<'a> + 'a>>;
}
struct Cl<I: Iterator>(I, fn(I::Item) -> SItem);
impl<'a, I: Iterator + Clone + 'a> H<'a> for Cl<I> {
    fn next(&mut self) -> Option<SItem> {
        self.0.next().map(self.1)
    }
    fn try_clone(&self) -> Option<Box<dyn H<'a> + 'a>> {
        Some(Box::new(Cl(self.0.clone(), self.1)))
    }
}
struct NoCl<I: Iterator>(I, fn(I::Item) -> SItem);
impl<'a, I: Iterator + 'a> H<'a> for NoCl<I> {
    fn next(&mut self) -> Option<SItem> {
        self.0.next().map(self.1)
    }
    fn try_clone(&self) -> Option<Box<dyn H<'a> + 'a>> {
        None
    }
}

const Z: Raw = Raw { addr: 0, len: 0 };
fn it_kv<P: SimPrefix, T: SimVal>((p, v): (&P, &T)) -> SItem {
    SItem { raw: p.raw(), tag: 1, l: Some(v.snap()), r: None, ann: None }
}
fn it_k<P: SimPrefix>(p: &P) -> SItem {
    SItem { raw: p.raw(), tag: 1, l: None, r: None, ann: None }
}
fn it_v<T: SimVal>(v: &T) -> SItem {
    SItem { raw: Z, tag: 1, l: Some(v.snap()), r: None, ann: None }
}
fn it_okv<P: SimPrefix, T: SimVal>((p, v): (P, T)) -> SItem {
    SItem { raw: p.raw(), tag: 1, l: Some(v.snap()), r: None, ann: None }
}
fn it_ok<P: SimPrefix>(p: P) -> SItem {
    SItem { raw: p.raw(), tag: 1, l: None, r: None, ann: None }
}
fn it_ov<T: SimVal>(v: T) -> SItem {
    SItem { raw: Z, tag: 1, l: Some(v.snap()), r: None, ann: None }
}
fn it_union<P: SimPrefix, L: SimVal, Rr: SimVal>(u: UnionItem<'_, P, L, Rr>) -> SItem {
    match u {
        UnionItem::Both { prefix, left, right } => SItem { raw: prefix.raw(), tag: 0, l: Some(left.snap()), r: Some(right.snap()), ann: None },
        UnionItem::Left { prefix, left, right } => SItem { raw: prefix.raw(), tag: 1, l: Some(left.snap()), r: None, ann: right.map(|(p, v)| (p.raw(), v.snap())) },
        UnionItem::Right { prefix, left, right } => SItem { raw: prefix.raw(), tag: 2, l: None, r: Some(right.snap()), ann: left.map(|(p, v)| (p.raw(), v.snap())) },
    }
}
fn it_inter<P: SimPrefix, L: SimVal, Rr: SimVal>((p, l, r): (&P, &L, &Rr)) -> SItem {
    SItem { raw: p.raw(), tag: 0, l: Some(l.snap()), r: Some(r.snap()), ann: None }
}
fn it_diff<P: SimPrefix, L: SimVal, Rr: SimVal>(d: prefix_trie::trieview::DifferenceItem<'_, P, L, Rr>) -> SItem {
    SItem { raw: d.prefix.raw(), tag: 1, l: Some(d.value.snap()), r: None, ann: d.right.map(|(p, v)| (p.raw(), v.snap())) }
}

fn e_kv(e: &Ent) -> SItem {
    SItem { raw: e.raw, tag: 1, l: Some(e.v), r: None, ann: None }
}
fn e_k(e: &Ent) -> SItem {
    SItem { raw: e.raw, tag: 1, l: None, r: None, ann: None }
}
fn e_v(e: &Ent) -> SItem {
    SItem { raw: Z, tag: 1, l: Some(e.v), r: None, ann: None }
}

fn mk<'a>(h: Box<dyn H<'a> + 'a>, exp: Vec<SItem>, prop: &'static str, ann_prop: &'static str, name: String) -> Live<'a> {
    Live { h, exp: Rc::new(exp), pos: 0, prop, ann_prop, name }
}

struct Live<'a> {
    h: Box<dyn H<'a> + 'a>,
    exp: Rc<Vec<SItem>>,
    pos: usize,
    prop: &'static str,
    /// property for a mismatch that is confined to the LPM annotation
    ann_prop: &'static str,
    name: String,
}

enum AnyView<'a, P: SimPrefix> {
    M(TrieView<'a, P, Val>, Key),
    S(TrieView<'a, P, ()>, Key),
}

fn any_view<'a, P: SimPrefix>(w: &'a World<P>, o: Opnd, nav: &[Nav]) -> AnyView<'a, P> {
    match w.opnd(o) {
        Opnd::M(i) => {
            let (v, r) = navigate_region(w.maps[i as usize].real.view(), nav);
            AnyView::M(v, r)
        }
        Opnd::S(i) => {
            let (v, r) = navigate_region(w.sets[i as usize].real.view(), nav);
            AnyView::S(v, r)
        }
    }
}

fn setop_handle<'a, P: SimPrefix, L: SimVal, Rr: SimVal>(op: u8, a: &TrieView<'a, P, L>, b: &TrieView<'a, P, Rr>, cap: usize) -> (Box<dyn H<'a> + 'a>, Vec<SItem>, &'static str, &'static str, &'static str) {
    let (ea, eb) = (view_ents(a, cap), view_ents(b, cap));
    match op % 4 {
        0 => (Box::new(NoCl(a.union(b.clone()), it_union::<P, L, Rr>)), model_union(&ea, &eb), "C05", "C08", "union"),
        1 => (Box::new(NoCl(a.intersection(b.clone()), it_inter::<P, L, Rr>)), model_intersection(&ea, &eb), "C06", "C06", "intersection"),
        2 => (Box::new(NoCl(a.difference(b.clone()), it_diff::<P, L, Rr>)), model_difference(&ea, &eb), "C07", "C08", "difference"),
        _ => (Box::new(NoCl(a.covering_difference(b.clone()), it_kv::<P, L>)), model_covering_difference(&ea, &eb), "C07", "C07", "covering_difference"),
    }
}

pub fn read_session<P: SimPrefix>(w: &mut World<P>, ctx: &mut Ctx, handles: &[HSpec], sched: &[RAct]) -> R {
    let w: &World<P> = w;
    // prefixes the Cover handles borrow from
    let prefixes: Vec<P> = handles
        .iter()
        .map(|h| match h {
            HSpec::Children(_, q) | HSpec::Cover(_, q) | HSpec::CoverKeys(_, q) | HSpec::CoverValues(_, q) | HSpec::Into(_, _, q) => P::make(*q),
            _ => P::make(Z),
        })
        .collect();
    let mut live: Vec<Live<'_>> = vec![];
    let cap_all: usize = 4 * w.truths.iter().map(|t| t.nodes.len()).sum::<usize>() + 16;
    for (hi, h) in handles.iter().enumerate() {
        let pfx = &prefixes[hi];
        let created = crate::ctx::guarded(ctx.fuel, || -> Live<'_> {
            match h {
                HSpec::Iter(o) | HSpec::Keys(o) | HSpec::Values(o) => {
                    let t = &w.truths[w.cidx(*o)];
                    match (w.opnd(*o), h) {
                        (Opnd::M(i), HSpec::Iter(_)) => mk(Box::new(Cl(w.maps[i as usize].real.iter(), it_kv::<P, Val>)), t.ents.iter().map(e_kv).collect(), "C03", "C03", "iter".into()),
                        (Opnd::M(i), HSpec::Keys(_)) => mk(Box::new(Cl(w.maps[i as usize].real.keys(), it_k::<P>)), t.ents.iter().map(e_k).collect(), "C03", "C03", "keys".into()),
                        (Opnd::M(i), _) => mk(Box::new(Cl(w.maps[i as usize].real.values(), it_v::<Val>)), t.ents.iter().map(e_v).collect(), "C03", "C03", "values".into()),
                        (Opnd::S(i), _) => mk(Box::new(Cl(w.sets[i as usize].real.iter(), it_k::<P>)), t.ents.iter().map(e_k).collect(), "C03", "C03", "set.iter".into()),
                    }
                }
                HSpec::Children(o, q) => {
                    let t = &w.truths[w.cidx(*o)];
                    let exp = under(&t.ents, q.key());
                    match w.opnd(*o) {
                        Opnd::M(i) => mk(Box::new(Cl(w.maps[i as usize].real.children(pfx), it_kv::<P, Val>)), exp.into_iter().map(e_kv).collect(), "C10", "C10", format!("children({q})")),
                        Opnd::S(i) => mk(Box::new(Cl(w.sets[i as usize].real.children(pfx), it_k::<P>)), exp.into_iter().map(e_k).collect(), "C10", "C10", format!("set.children({q})")),
                    }
                }
                HSpec::Cover(o, q) | HSpec::CoverKeys(o, q) | HSpec::CoverValues(o, q) => {
                    let t = &w.truths[w.cidx(*o)];
                    let exp = cover(&t.ents, q.key());
                    match (w.opnd(*o), h) {
                        (Opnd::M(i), HSpec::Cover(..)) => mk(Box::new(NoCl(w.maps[i as usize].real.cover(pfx), it_kv::<P, Val>)), exp.into_iter().map(e_kv).collect(), "C09", "C09", format!("cover({q})")),
                        (Opnd::M(i), HSpec::CoverKeys(..)) => mk(Box::new(NoCl(w.maps[i as usize].real.cover_keys(pfx), it_k::<P>)), exp.into_iter().map(e_k).collect(), "C09", "C09", format!("cover_keys({q})")),
                        (Opnd::M(i), _) => mk(Box::new(NoCl(w.maps[i as usize].real.cover_values(pfx), it_v::<Val>)), exp.into_iter().map(e_v).collect(), "C09", "C09", format!("cover_values({q})")),
                        (Opnd::S(i), _) => mk(Box::new(NoCl(w.sets[i as usize].real.cover(pfx), it_k::<P>)), exp.into_iter().map(e_k).collect(), "C09", "C09", format!("set.cover({q})")),
                    }
                }
                HSpec::ViewIter(o, nav) | HSpec::ViewKeys(o, nav) | HSpec::ViewValues(o, nav) => {
                    let t = &w.truths[w.cidx(*o)];
                    match (any_view(w, *o, nav), h) {
                        (AnyView::M(v, region), HSpec::ViewIter(..)) => {
                            let exp = under(&t.ents, region);
                            mk(Box::new(Cl(v.iter(), it_kv::<P, Val>)), exp.into_iter().map(e_kv).collect(), "C11", "C11", format!("view({}).iter", v.prefix().raw()))
                        }
                        (AnyView::M(v, region), HSpec::ViewKeys(..)) => {
                            let exp = under(&t.ents, region);
                            mk(Box::new(Cl(v.keys(), it_k::<P>)), exp.into_iter().map(e_k).collect(), "C11", "C11", format!("view({}).keys", v.prefix().raw()))
                        }
                        (AnyView::M(v, region), _) => {
                            let exp = under(&t.ents, region);
                            mk(Box::new(Cl(v.values(), it_v::<Val>)), exp.into_iter().map(e_v).collect(), "C11", "C11", format!("view({}).values", v.prefix().raw()))
                        }
                        (AnyView::S(v, region), _) => {
                            let exp = under(&t.ents, region);
                            mk(Box::new(Cl(v.keys(), it_k::<P>)), exp.into_iter().map(e_k).collect(), "C11", "C11", format!("set.view({}).keys", v.prefix().raw()))
                        }
                    }
                }
                HSpec::SetOp { op, a, na, b, nb } => {
                    let (h, exp, p, ap, name) = match (any_view(w, *a, na), any_view(w, *b, nb)) {
                        (AnyView::M(x, _), AnyView::M(y, _)) => setop_handle(*op, &x, &y, cap_all),
                        (AnyView::M(x, _), AnyView::S(y, _)) => setop_handle(*op, &x, &y, cap_all),
                        (AnyView::S(x, _), AnyView::M(y, _)) => setop_handle(*op, &x, &y, cap_all),
                        (AnyView::S(x, _), AnyView::S(y, _)) => setop_handle(*op, &x, &y, cap_all),
                    };
                    mk(h, exp, p, ap, name.into())
                }
                HSpec::Into(o, form, q) => {
                    let t = &w.truths[w.cidx(*o)];
                    match w.opnd(*o) {
                        Opnd::M(i) => {
                            let c = w.maps[i as usize].real.clone();
                            match form % 4 {
                                0 => mk(Box::new(Cl(c.into_iter(), it_okv::<P, Val>)), t.ents.iter().map(e_kv).collect(), "C03", "C03", "into_iter".into()),
                                1 => mk(Box::new(Cl(c.into_keys(), it_ok::<P>)), t.ents.iter().map(e_k).collect(), "C03", "C03", "into_keys".into()),
                                2 => mk(Box::new(Cl(c.into_values(), it_ov::<Val>)), t.ents.iter().map(e_v).collect(), "C03", "C03", "into_values".into()),
                                _ => mk(Box::new(Cl(c.into_children(pfx), it_okv::<P, Val>)), under(&t.ents, q.key()).into_iter().map(e_kv).collect(), "C10", "C10", format!("into_children({q})")),
                            }
                        }
                        Opnd::S(i) => mk(Box::new(Cl(w.sets[i as usize].real.clone().into_iter(), it_ok::<P>)), t.ents.iter().map(e_k).collect(), "C03", "C03", "set.into_iter".into()),
                    }
                }
            }
        });
        match created {
            Ok(l) => live.push(l),
            Err(pi) => return Err(ctx.viol("C20", format!("C20:panic:create-handle:{}", pi.class()), format!("creating handle {:?} panicked: {} at {}", h, pi.msg, pi.loc))),
        }
    }
    ctx.hit("step.read_session");
    let mut steps_done = 0u64;
    let step_one = |ctx: &mut Ctx, l: &mut Live<'_>, overrun: bool| -> R {
        let prop = l.prop;
        let got = ctx.obs(prop, &l.name.clone(), || l.h.next())?;
        let exp = l.exp.get(l.pos).cloned();
        if l.pos < l.exp.len() {
            l.pos += 1;
        } else if overrun {
            ctx.stats.hit("fault.overrun fired");
        }
        if got != exp {
            // annotation-only difference?
            if let (Some(g), Some(e)) = (&got, &exp) {
                if g.raw == e.raw && g.tag == e.tag && g.l == e.l && g.r == e.r {
                    chk!(ctx, l.ann_prop, false, format!("session:{}:lpm", l.name.split('(').next().unwrap_or("")), "{} item #{}: LPM annotation {:?}, expected {:?}", l.name, l.pos, g.ann, e.ann);
                    return Ok(());
                }
                if g.raw.key() == e.raw.key() && g.tag == e.tag && g.l == e.l && g.r == e.r && g.ann == e.ann {
                    chk!(ctx, "C18", false, "repr:session", "{} item #{}: prefix {} reported, stored representation {}", l.name, l.pos, g.raw, e.raw);
                    return Ok(());
                }
            }
            chk!(ctx, prop, false, format!("session:{}", l.name.split('(').next().unwrap_or("")), "{} (stepped interleaved with other live handles): call #{} returned {:?}, expected {:?}", l.name, l.pos, got, exp);
        }
        Ok(())
    };
    for a in sched {
        if live.is_empty() {
            break;
        }
        let n = live.len();
        match a {
            RAct::Next(i) => {
                let l = &mut live[*i as usize % n];
                step_one(ctx, l, false)?;
                steps_done += 1;
            }
            RAct::Overrun(i) => {
                let l = &mut live[*i as usize % n];
                let k = if l.pos >= l.exp.len() { 3 } else { 1 };
                for _ in 0..k {
                    step_one(ctx, l, true)?;
                }
            }
            RAct::CloneH(i) => {
                let l = &live[*i as usize % n];
                if live.len() < 8 {
                    if let Some(h) = l.h.try_clone() {
                        let nl = Live { h, exp: l.exp.clone(), pos: l.pos, prop: l.prop, ann_prop: l.ann_prop, name: format!("{}.clone@{}", l.name, l.pos) };
                        live.push(nl);
                        ctx.stats.hit("fault.clone@j fired");
                    }
                }
            }
            RAct::DropH(i) => {
                let l = live.swap_remove(*i as usize % n);
                if l.pos < l.exp.len() {
                    ctx.stats.hit("fault.abandon fired");
                }
                drop(l);
            }
        }
    }
    // run every remaining handle to completion and beyond
    for l in live.iter_mut() {
        let mut guard = 0;
        while l.pos < l.exp.len() && guard < cap_all {
            step_one(ctx, l, false)?;
            guard += 1;
        }
        for _ in 0..2 {
            step_one(ctx, l, true)?;
        }
    }
    if live.len() >= 2 && steps_done >= 2 {
        ctx.rare("probe.read session with >=2 interleaved handles");
    }
    Ok(())
}

// =========================================================================== mutable sessions

/// value types that can be written through a mutable reference
pub trait WVal: SimVal {
    fn mk(v: u64) -> Self;
    fn wr(&mut self, v: u64);
    fn norm(v: u64) -> u64;
}
impl WVal for Val {
    fn mk(v: u64) -> Self {
        Val::new(v)
    }
    fn wr(&mut self, v: u64) {
        self.payload = v
    }
    fn norm(v: u64) -> u64 {
        v
    }
}
impl WVal for () {
    fn mk(_: u64) -> Self {}
    fn wr(&mut self, _: u64) {}
    fn norm(_: u64) -> u64 {
        0
    }
}

pub type Exp = BTreeMap<Key, (Raw, u64)>;

fn exp_under(exp: &Exp, p: Key) -> Vec<Ent> {
    exp.iter().filter(|(k, _)| p.covers(**k)).map(|(k, x)| Ent { key: *k, raw: x.0, v: x.1 }).collect()
}

struct LiveIt<'a, P, T> {
    it: IterMut<'a, P, T>,
    exp: Vec<Key>,
    pos: usize,
    root: Key,
}

struct Sess<'a, P: SimPrefix, T: WVal> {
    pool: Vec<TrieViewMut<'a, P, T>>,
    /// the region of the key space each pool view owns (parallel to `pool`). Usually the view's
    /// prefix; for a virtual view obtained by `find(q)` with q covering the searched view it stays
    /// the region of that view (the virtual prefix q lies above it).
    dom: Vec<Key>,
    iters: Vec<LiveIt<'a, P, T>>,
    held: Vec<(Key, &'a mut T)>,
    addrs: BTreeSet<usize>,
    exp: Exp,
    shape_changed: bool,
    cap: usize,
}

impl<'a, P: SimPrefix, T: WVal> Sess<'a, P, T> {
    fn note_addr(&mut self, ctx: &mut Ctx, r: &T, what: &str) -> R {
        if T::IS_ZST {
            return Ok(());
        }
        let a = r as *const T as usize;
        let fresh = self.addrs.insert(a);
        chk!(ctx, "C14", fresh, format!("alias:{what}"), "{what} handed out a second live mutable reference to the same entry");
        Ok(())
    }
    fn take(&mut self, i: usize) -> (TrieViewMut<'a, P, T>, Key) {
        (self.pool.swap_remove(i), self.dom.swap_remove(i))
    }
    /// put a view (back) into the pool; `parent` is the region of the view it was derived from
    fn put(&mut self, v: TrieViewMut<'a, P, T>, parent: Key) {
        let p = v.prefix().raw().key();
        // a sub-view narrows the region; a virtual view above the region keeps it
        let region = if parent.covers(p) { p } else { parent };
        self.pool.push(v);
        self.dom.push(region);
    }
    /// (region of view i, does the view's own prefix lie inside its region?)
    fn region(&self, i: usize) -> (Key, bool) {
        let p = self.pool[i].prefix().raw().key();
        (self.dom[i], self.dom[i].covers(p))
    }
    /// all views / live iterators address pairwise disjoint sub-tries
    fn check_disjoint(&self, ctx: &mut Ctx, after: &str) -> R {
        if !ctx.is("C14") {
            return Ok(());
        }
        let mut roots: Vec<Key> = self.dom.clone();
        roots.extend(self.iters.iter().map(|i| i.root));
        for i in 0..roots.len() {
            for j in 0..roots.len() {
                if i != j {
                    chk!(ctx, "C14", !roots[i].covers(roots[j]), format!("views-overlap:{after}"), "after {after}: two live mutable views/iterators overlap: {} covers {}", roots[i], roots[j]);
                }
            }
        }
        Ok(())
    }
    fn peek(&self, ctx: &mut Ctx, i: usize) -> R {
        if self.pool.is_empty() {
            return Ok(());
        }
        let i = i % self.pool.len();
        let v = &self.pool[i];
        let (region, own) = self.region(i);
        let cap = self.cap;
        let (p, val, _hl, _hr, ents) = ctx.obs("C13", "peek", || (v.prefix().raw().key(), v.value().map(|x| x.snap()), v.has_left(), v.has_right(), view_ents(&v.view(), cap)))?;
        let e = exp_under(&self.exp, region);
        chk!(ctx, "C13", ents == e, "peek:entries", "read-only look at mutable view {p} while references are held: sees {:?}, expected {:?}", ents, e);
        let here = if own { self.exp.get(&p).map(|x| x.1) } else { None };
        chk!(ctx, "C13", val == here, "peek:value", "view {p}.value() = {:?}, expected {:?}", val, here);
        // a read-only view derived from the mutable view never reaches beyond it, whatever is searched
        if ctx.is("C14") {
            for q in [Key::ZERO, region.parent().unwrap_or(Key::ZERO), region.truncate(region.len / 2)] {
                let got = ctx.obs("C14", "readonly find", || v.view().find(P::make(q.raw())).map(|x| view_ents(&x, cap)))?;
                if let Some(g) = got {
                    let exp: Vec<Ent> = e.iter().filter(|x| q.covers(x.key)).cloned().collect();
                    chk!(ctx, "C14", g == exp, "escape:readonly-find", "read-only view of mutable view {p}: find({q}) addresses {:?}, but the mutable view only owns {:?}", g, e);
                }
            }
        }
        Ok(())
    }
}

/// Result of a `*_mut` set operation inside a session: writes made on both sides
struct SetOpWrites {
    left: Vec<(Key, u64)>,
    right: Vec<(Key, u64)>,
}

#[allow(clippy::too_many_arguments)]
fn run_setop_mut<'x, 'y: 'x, P: SimPrefix, T: WVal, Rr: WVal>(
    ctx: &mut Ctx,
    a: &'x mut TrieViewMut<'_, P, T>,
    b_owned: Option<TrieViewMut<'x, P, Rr>>,
    b_ref: Option<&'x TrieViewMut<'y, P, Rr>>,
    op: u8,
    order: u64,
    v0: u64,
    ea: &[Ent],
    eb: &[Ent],
    mut peek: impl FnMut(&mut Ctx) -> R,
) -> R<SetOpWrites> {
    let name = ["union_mut", "intersection_mut", "difference_mut", "covering_difference_mut"][op as usize % 4];
    let prop = ["C05", "C06", "C07", "C07"][op as usize % 4];
    let exp: Vec<SItem> = match op % 4 {
        // union_mut carries no annotations
        0 => model_union(ea, eb).into_iter().map(|e| SItem { ann: None, ..e }).collect(),
        1 => model_intersection(ea, eb),
        2 => model_difference(ea, eb),
        _ => model_covering_difference(ea, eb),
    };
    let desc = format!("a = {:?}, b = {:?}", ea, eb);
    // the read-only twin on the very same views: the mutable form must yield the same prefixes
    // (in whatever stored representation the implementation reports for items stored in both)
    let twin: Vec<Raw> = {
        let bv = match (&b_owned, b_ref) {
            (Some(b), _) => b.view(),
            (None, Some(b)) => b.view(),
            (None, None) => unreachable!(),
        };
        let av = (&*a).view();
        ctx.obs("C13", "read-only twin", || match op % 4 {
            0 => av.union(bv).take(4 * (ea.len() + eb.len()) + 16).map(|x| x.prefix().raw()).collect(),
            1 => av.intersection(bv).take(4 * (ea.len() + eb.len()) + 16).map(|x| x.0.raw()).collect(),
            2 => av.difference(bv).take(4 * (ea.len() + eb.len()) + 16).map(|x| x.prefix.raw()).collect(),
            _ => av.covering_difference(bv).take(4 * (ea.len() + eb.len()) + 16).map(|x| x.0.raw()).collect(),
        })?
    };
    let mut w = SetOpWrites { left: vec![], right: vec![] };
    let cap = 2 * (ea.len() + eb.len()) + 16;
    // collect all items (holding every reference), compare, write in permuted order with a
    // read-only look at another view in the middle
    macro_rules! finish {
        ($items:expr) => {{
            let items = $items;
            let got: Vec<SItem> = items.iter().map(|x| x.0.clone()).collect();
            let core = |v: &[SItem]| v.iter().map(|x| (x.raw.key(), x.tag, x.l, x.r)).collect::<Vec<_>>();
            chk!(ctx, prop, core(&got) == core(&exp), format!("session:{name}:items"), "{name} yields {:?}, expected {:?}; {desc}", got, exp);
            chk!(ctx, "C13", got.iter().map(|x| (x.raw.key(), x.l, x.r)).collect::<Vec<_>>() == exp.iter().map(|x| (x.raw.key(), x.l, x.r)).collect::<Vec<_>>(), format!("mirror:{name}"), "{name} yields {:?}, read-only twin {:?}; {desc}", got, exp);
            chk!(ctx, "C13", got.iter().map(|x| x.raw).collect::<Vec<_>>() == twin, format!("mirror:{name}:prefixes"), "{name} yields prefixes {:?}, the read-only twin on the same views yields {:?}; {desc}", got.iter().map(|x| x.raw).collect::<Vec<_>>(), twin);
            if core(&got) == core(&exp) {
                let ann = |v: &[SItem]| v.iter().map(|x| x.ann.map(|a| (a.0.key(), a.1))).collect::<Vec<_>>();
                chk!(ctx, "C08", ann(&got) == ann(&exp), format!("session:{name}:lpm"), "{name} annotations {:?}, expected {:?}; {desc}", ann(&got), ann(&exp));
            }
            let mut al: Vec<usize> = items.iter().filter_map(|x| x.1.as_ref().map(|r| (&**r) as *const T as usize)).collect();
            let mut ar: Vec<usize> = items.iter().filter_map(|x| x.2.as_ref().map(|r| (&**r) as *const Rr as usize)).collect();
            let (nl, nr) = (al.len(), ar.len());
            al.sort();
            al.dedup();
            ar.sort();
            ar.dedup();
            chk!(ctx, "C14", (T::IS_ZST || al.len() == nl) && (Rr::IS_ZST || ar.len() == nr), format!("alias:{name}"), "{name} handed out aliasing mutable references; {desc}");
            let mut items = items;
            let mut idx: Vec<usize> = (0..items.len()).collect();
            Rng::new(order).shuffle(&mut idx);
            let half = idx.len() / 2;
            for (n, j) in idx.into_iter().enumerate() {
                if n == half {
                    peek(ctx)?;
                }
                let k = items[j].0.raw.key();
                if let Some(r) = items[j].1.as_mut() {
                    r.wr(v0 + 2 * j as u64);
                    w.left.push((k, T::norm(v0 + 2 * j as u64)));
                }
                if let Some(r) = items[j].2.as_mut() {
                    r.wr(v0 + 2 * j as u64 + 1);
                    w.right.push((k, Rr::norm(v0 + 2 * j as u64 + 1)));
                }
            }
            ctx.stats.hit("fault.write-order permutations");
        }};
    }
    type Item<'i, T, Rr> = (SItem, Option<&'i mut T>, Option<&'i mut Rr>);
    match op % 4 {
        0 => {
            let items: Vec<Item<'_, T, Rr>> = ctx.obs(prop, name, || {
                a.union_mut(b_owned.expect("owned b"))
                    .take(cap)
                    .map(|(p, l, r)| (SItem { raw: p.raw(), tag: if l.is_some() && r.is_some() { 0 } else if l.is_some() { 1 } else { 2 }, l: l.as_ref().map(|x| x.snap()), r: r.as_ref().map(|x| x.snap()), ann: None }, l, r))
                    .collect()
            })?;
            finish!(items);
            Ok(w)
        }
        1 => {
            let items: Vec<Item<'_, T, Rr>> = ctx.obs(prop, name, || {
                a.intersection_mut(b_owned.expect("owned b")).take(cap).map(|(p, l, r)| (SItem { raw: p.raw(), tag: 0, l: Some(l.snap()), r: Some(r.snap()), ann: None }, Some(l), Some(r))).collect()
            })?;
            finish!(items);
            Ok(w)
        }
        2 => {
            {
                let items: Vec<Item<'_, T, Rr>> = ctx.obs(prop, name, || {
                    a.difference_mut(b_ref.expect("borrowed b"))
                        .take(cap)
                        .map(|d| (SItem { raw: d.prefix.raw(), tag: 1, l: Some(d.value.snap()), r: None, ann: d.right.map(|(p, v)| (p.raw(), v.snap())) }, Some(d.value), None))
                        .collect()
                })?;
                finish!(items);
            }
            Ok(w)
        }
        _ => {
            {
                let items: Vec<Item<'_, T, Rr>> = ctx.obs(prop, name, || {
                    a.covering_difference_mut(b_ref.expect("borrowed b")).take(cap).map(|(p, l)| (SItem { raw: p.raw(), tag: 1, l: Some(l.snap()), r: None, ann: None }, Some(l), None)).collect()
                })?;
                finish!(items);
            }
            Ok(w)
        }
    }
}

pub fn run_session<'a, P: SimPrefix, T: WVal>(ctx: &mut Ctx, mut w: Option<&mut World<P>>, self_idx: usize, root: TrieViewMut<'a, P, T>, root_region: Key, t0: &Truth, acts: &[MAct]) -> R<(Exp, bool, Vec<usize>)> {
    let mut s: Sess<'a, P, T> = Sess {
        pool: vec![root],
        dom: vec![root_region],
        iters: vec![],
        held: vec![],
        addrs: BTreeSet::new(),
        exp: t0.ents.iter().map(|e| (e.key, (e.raw, e.v))).collect(),
        shape_changed: false,
        cap: 2 * t0.nodes.len() + 8,
    };
    let mut touched_others: Vec<usize> = vec![];
    for act in acts {
        let n = s.pool.len();
        match act {
            MAct::Left(i) | MAct::Right(i) | MAct::Find(i, _) | MAct::FindExact(i, _) | MAct::FindLpm(i, _) => {
                if n == 0 {
                    continue;
                }
                let (v, vdom) = s.take(*i as usize % n);
                let vp = v.prefix().raw().key();
                // the read-only twin of this navigation step, from the same position
                let cap = s.cap;
                let twin = ctx.obs("C13", "read-only navigation", || {
                    let ro = (&v).view();
                    let t = match act {
                        MAct::Left(_) => ro.left(),
                        MAct::Right(_) => ro.right(),
                        MAct::Find(_, q) => ro.find(P::make(*q)),
                        MAct::FindExact(_, q) => ro.find_exact(&P::make(*q)),
                        MAct::FindLpm(_, q) => ro.find_lpm(&P::make(*q)),
                        _ => unreachable!(),
                    };
                    t.map(|x| (x.prefix().raw().key(), x.value().map(|y| y.snap()), view_ents(&x, cap)))
                })?;
                let (r, name) = match act {
                    MAct::Left(_) => (ctx.obs("*", "left", || v.left())?, "left"),
                    MAct::Right(_) => (ctx.obs("*", "right", || v.right())?, "right"),
                    MAct::Find(_, q) => (ctx.obs("*", "find", || v.find(P::make(*q)))?, "find"),
                    MAct::FindExact(_, q) => (ctx.obs("*", "find_exact", || v.find_exact(&P::make(*q)))?, "find_exact"),
                    MAct::FindLpm(_, q) => (ctx.obs("*", "find_lpm", || v.find_lpm(&P::make(*q)))?, "find_lpm"),
                    _ => unreachable!(),
                };
                let got = ctx.obs("C13", "navigation result", || match &r {
                    Ok(nv) => Some((nv.prefix().raw().key(), nv.value().map(|y| y.snap()), view_ents(&nv.view(), cap))),
                    Err(_) => None,
                })?;
                chk!(ctx, "C13", got == twin, format!("mirror:nav:{name}"), "{name}() on mutable view {vp} gives (prefix, value, entries) = {:?}, the same step on its read-only view gives {:?}", got, twin);
                if let Err(o) = &r {
                    let op = o.prefix().raw().key();
                    chk!(ctx, "C13", op == vp, format!("mirror:nav:{name}:err-view"), "{name}() failed on mutable view {vp} but handed back a view at {op}");
                }
                match r {
                    Ok(nv) => {
                        let np = nv.prefix().raw().key();
                        // a sub-view never addresses anything outside its parent
                        chk!(ctx, "C14", vp.covers(np) || np.covers(vp), format!("escape:{name}"), "{name}() on mutable view {vp} produced a view at {np}, outside of it");
                        s.put(nv, vdom);
                    }
                    Err(o) => s.put(o, vdom),
                }
                s.check_disjoint(ctx, name)?;
            }
            MAct::Split(i) => {
                if n == 0 {
                    continue;
                }
                let (v, vdom) = s.take(*i as usize % n);
                let (l, r) = ctx.obs("*", "split", || v.split())?;
                if let Some(l) = l {
                    s.put(l, vdom);
                }
                if let Some(r) = r {
                    s.put(r, vdom);
                }
                ctx.hit("probe.split in mutable session");
                s.check_disjoint(ctx, "split")?;
            }
            MAct::Set(i, v) => {
                if n == 0 {
                    continue;
                }
                let (_, own) = s.region(*i as usize % n);
                let view = &mut s.pool[*i as usize % n];
                let pre = view.prefix().raw();
                let had = view.value().map(|x| x.snap());
                let r = ctx.mutate("view.set", || view.set(T::mk(*v)).map(|o| o.map(|x| x.snap())).map_err(|e| e.snap()))?;
                // a virtual view above its region does not address the entry stored at its prefix
                let model_had = if own { s.exp.get(&pre.key()).map(|x| x.1) } else { None };
                if !own {
                    chk!(ctx, "C14", r.is_err(), "escape:view.set", "view({pre}) lies above the sub-trie it was derived from, but set() stored a value there");
                    continue;
                }
                match r {
                    Ok(old) => {
                        chk!(ctx, "C01", old == model_had && old == had, "ret:view.set", "view({pre}).set() returned {:?}, value() before was {:?}, abstract map {:?}", old, had, model_had);
                        let raw = s.exp.get(&pre.key()).map(|x| x.0).unwrap_or(pre);
                        s.exp.insert(pre.key(), (raw, T::norm(*v)));
                        if old.is_none() {
                            ctx.rare("probe.view.set created an entry on a value-less node");
                            s.shape_changed = true; // entry set changed (shape itself must not)
                        }
                    }
                    Err(_) => {
                        chk!(ctx, "C01", had.is_none() && model_had.is_none(), "ret:view.set-failed-on-entry", "view({pre}).set() failed although an entry is stored there ({:?})", model_had);
                        ctx.hit("probe.view.set on virtual node refused");
                    }
                }
            }
            MAct::Remove(i) => {
                if n == 0 {
                    continue;
                }
                let (_, own) = s.region(*i as usize % n);
                let view = &mut s.pool[*i as usize % n];
                let pre = view.prefix().raw();
                let r = ctx.mutate("view.remove", || view.remove().map(|x| x.snap()))?;
                if !own {
                    chk!(ctx, "C14", r.is_none(), "escape:view.remove", "view({pre}) lies above the sub-trie it was derived from, but remove() took a value out");
                    continue;
                }
                let model = s.exp.remove(&pre.key()).map(|x| x.1);
                chk!(ctx, "C01", r == model, "ret:view.remove", "view({pre}).remove() returned {:?}, abstract map {:?}", r, model);
                if r.is_some() {
                    ctx.rare("probe.view.remove removed an entry");
                    s.shape_changed = true;
                }
            }
            MAct::ValueMutWrite(i, v) | MAct::PrefixValueMutWrite(i, v) => {
                if n == 0 {
                    continue;
                }
                let (_, own) = s.region(*i as usize % n);
                let view = &mut s.pool[*i as usize % n];
                let pre = view.prefix().raw().key();
                let pv = matches!(act, MAct::PrefixValueMutWrite(..));
                let got = ctx.mutate("view.value_mut", || {
                    if pv {
                        view.prefix_value_mut().map(|(p, r)| {
                            let old = r.snap();
                            r.wr(*v);
                            (Some(p.raw()), old)
                        })
                    } else {
                        view.value_mut().map(|r| {
                            let old = r.snap();
                            r.wr(*v);
                            (None, old)
                        })
                    }
                })?;
                let model = if own { s.exp.get(&pre).copied() } else { None };
                chk!(ctx, "C13", got.map(|g| g.1) == model.map(|m| m.1) && got.and_then(|g| g.0).map(|r| Some(r) == model.map(|m| m.0)).unwrap_or(true), "mirror:value_mut", "view({pre}).value_mut()/prefix_value_mut() yielded {:?}, read-only twin {:?}", got, model);
                if got.is_some() {
                    if let Some(x) = s.exp.get_mut(&pre) {
                        x.1 = T::norm(*v);
                    }
                }
            }
            MAct::IterMutScoped { i, form, order, v0 } => {
                if n == 0 {
                    continue;
                }
                let idx = *i as usize % n;
                let vp = s.region(idx).0;
                let exp = exp_under(&s.exp, vp);
                let cap = s.cap;
                let held_addrs = s.addrs.clone();
                let view = &mut s.pool[idx];
                let (seen, addrs) = ctx.mutate("view.iter_mut", || {
                    let mut refs: Vec<(Option<Raw>, &mut T)> = if form % 2 == 0 { view.iter_mut().take(cap).map(|(p, v)| (Some(p.raw()), v)).collect() } else { view.values_mut().take(cap).map(|v| (None, v)).collect() };
                    let seen: Vec<(Option<Raw>, u64)> = refs.iter().map(|(r, v)| (*r, v.snap())).collect();
                    let addrs: Vec<usize> = refs.iter().map(|(_, v)| (&**v) as *const T as usize).collect();
                    let mut ord: Vec<usize> = (0..refs.len()).collect();
                    Rng::new(*order).shuffle(&mut ord);
                    for j in ord {
                        refs[j].1.wr(*v0 + j as u64);
                    }
                    (seen, addrs)
                })?;
                let ok = seen.len() == exp.len() && seen.iter().zip(exp.iter()).all(|(g, e)| g.1 == e.v && g.0.map(|r| r == e.raw).unwrap_or(true));
                chk!(ctx, "C13", ok, "mirror:view.iter_mut", "view({vp}).iter_mut()/values_mut() yielded {:?}, read-only twin {:?}", seen, exp);
                if !T::IS_ZST {
                    let mut a2 = addrs.clone();
                    a2.sort();
                    a2.dedup();
                    chk!(ctx, "C14", a2.len() == addrs.len() && !addrs.iter().any(|a| held_addrs.contains(a)), "alias:view.iter_mut", "view({vp}).iter_mut() handed out references that alias each other or references still held");
                }
                if seen.len() == exp.len() {
                    for (j, e) in exp.iter().enumerate() {
                        s.exp.get_mut(&e.key).unwrap().1 = T::norm(*v0 + j as u64);
                    }
                }
                ctx.stats.hit("fault.write-order permutations");
            }
            MAct::IntoIter(i) => {
                if n == 0 {
                    continue;
                }
                let (v, root) = s.take(*i as usize % n);
                let exp: Vec<Key> = exp_under(&s.exp, root).iter().map(|e| e.key).collect();
                let it = ctx.obs("C13", "view.into_iter", || v.into_iter())?;
                s.iters.push(LiveIt { it, exp, pos: 0, root });
            }
            MAct::Next(j) => {
                if s.iters.is_empty() {
                    continue;
                }
                let ni = s.iters.len();
                let li = &mut s.iters[*j as usize % ni];
                let got = ctx.obs("C13", "IterMut::next", || li.it.next())?;
                let expk = li.exp.get(li.pos).copied();
                if li.pos < li.exp.len() {
                    li.pos += 1;
                }
                let root = li.root;
                match got {
                    None => {
                        chk!(ctx, "C13", expk.is_none(), "mirror:into_iter:short", "mutable iterator over view {root} ended early; next expected {:?}", expk);
                    }
                    Some((p, r)) => {
                        let raw = p.raw();
                        let cur = expk.and_then(|k| s.exp.get(&k).copied());
                        chk!(ctx, "C13", expk == Some(raw.key()) && cur.map(|c| (c.0, c.1)) == Some((raw, r.snap())), "mirror:into_iter", "mutable iterator over view {root} yielded ({raw}, {}), read-only twin {:?}", r.snap(), cur);
                        s.note_addr(ctx, r, "IterMut::next")?;
                        s.held.push((raw.key(), r));
                        if s.held.len() >= 2 {
                            ctx.rare("probe.>=2 mutable references held at once");
                        }
                    }
                }
            }
            MAct::WriteHeld(r, v) => {
                if s.held.is_empty() {
                    continue;
                }
                let nh = s.held.len();
                let (k, r) = &mut s.held[*r as usize % nh];
                r.wr(*v);
                if let Some(x) = s.exp.get_mut(k) {
                    x.1 = T::norm(*v);
                }
                ctx.hit("probe.write through a held reference");
            }
            MAct::Peek(i) => {
                if !s.held.is_empty() && !s.pool.is_empty() {
                    ctx.rare("probe.read-only use of a disjoint view while references are held");
                }
                s.peek(ctx, *i as usize)?;
            }
            MAct::Churn { i, rounds, v0 } => {
                if n == 0 {
                    continue;
                }
                // prefer a view that currently holds a value at its root
                let start = *i as usize % n;
                let idx = (0..n).map(|d| (start + d) % n).find(|j| s.pool[*j].value().is_some() && s.region(*j).1);
                let Some(idx) = idx else { continue };
                let view = &mut s.pool[idx];
                let key = view.prefix().raw().key();
                let (rounds, v0) = (*rounds, *v0);
                let ok = ctx.mutate("view.remove/set churn", || {
                    let mut ok = true;
                    for r in 0..rounds {
                        ok &= view.remove().is_some();
                        ok &= matches!(view.set(T::mk(v0 + r as u64)), Ok(None));
                    }
                    ok
                })?;
                chk!(ctx, "C01", ok, "ret:view.churn", "remove()/set() cycles on view {key} returned unexpected results");
                if let Some(x) = s.exp.get_mut(&key) {
                    x.1 = T::norm(v0 + rounds as u64 - 1);
                }
                ctx.rare("probe.remove/set churn through a mutable view");
            }
            MAct::Forget(i) => {
                if n == 0 {
                    continue;
                }
                std::mem::forget(s.take(*i as usize % n).0);
                ctx.stats.hit("fault.forget fired");
            }
            MAct::SetOpSame { i, j, op, order, v0 } => {
                if n < 2 {
                    continue;
                }
                let (i, mut j) = (*i as usize % n, *j as usize % n);
                if i == j {
                    j = (j + 1) % n;
                }
                let (hi, lo) = (i.max(j), i.min(j));
                let (x, dx) = s.take(hi);
                let (y, dy) = s.take(lo);
                let ((mut a, pa), (b, pb)) = if i > j { ((x, dx), (y, dy)) } else { ((y, dy), (x, dx)) };
                let (ea, eb) = (exp_under(&s.exp, pa), exp_under(&s.exp, pb));
                ctx.rare("probe.setop_mut between two views of one map in a session");
                let sref = &s;
                let (wr, back) = if op % 4 < 2 {
                    (run_setop_mut(ctx, &mut a, Some(b), None, *op, *order, *v0, &ea, &eb, |c| sref.peek(c, 0))?, None)
                } else {
                    (run_setop_mut(ctx, &mut a, None, Some(&b), *op, *order, *v0, &ea, &eb, |c| sref.peek(c, 0))?, Some(b))
                };
                for (k, v) in wr.left.iter().chain(wr.right.iter()) {
                    if let Some(x) = s.exp.get_mut(k) {
                        x.1 = *v;
                    }
                }
                // views come back into the pool
                s.put(a, pa);
                if let Some(b) = back {
                    s.put(b, pb);
                }
                s.check_disjoint(ctx, "setop_mut")?;
            }
            MAct::SetOpOther { i, other, nav, op, order, v0 } => {
                if n == 0 {
                    continue;
                }
                let Some(w) = w.as_deref_mut() else { continue };
                let oi = w.cidx(*other);
                if oi == self_idx {
                    continue;
                }
                let idx = *i as usize % n;
                let (mut a, pa) = s.take(idx);
                let ea = exp_under(&s.exp, pa);
                let sref = &s;
                let wr = match w.opnd(*other) {
                    Opnd::M(o) => {
                        let mw = &mut w.maps[o as usize];
                        let tb = truth_of(&mw.real.verif_snapshot());
                        let (b, rb) = ctx.obs("*", "navigate_mut", || navigate_mut_region(mw.real.view_mut(), nav))?;
                        let eb: Vec<Ent> = under(&tb.ents, rb).into_iter().cloned().collect();
                        let wr = if op % 4 < 2 {
                            run_setop_mut(ctx, &mut a, Some(b), None, *op, *order, *v0, &ea, &eb, |c| sref.peek(c, 0))?
                        } else {
                            run_setop_mut(ctx, &mut a, None, Some(&b), *op, *order, *v0, &ea, &eb, |c| sref.peek(c, 0))?
                        };
                        for (k, v) in &wr.right {
                            if let Some(x) = mw.model.get_mut(k) {
                                x.1 = *v;
                            }
                        }
                        wr
                    }
                    Opnd::S(o) => {
                        let sw = &mut w.sets[o as usize];
                        let tb = truth_of(&sw.real.verif_snapshot());
                        let (b, rb) = ctx.obs("*", "navigate_mut", || navigate_mut_region(sw.real.view_mut(), nav))?;
                        let eb: Vec<Ent> = under(&tb.ents, rb).into_iter().cloned().collect();
                        if op % 4 < 2 {
                            run_setop_mut(ctx, &mut a, Some(b), None, *op, *order, *v0, &ea, &eb, |c| sref.peek(c, 0))?
                        } else {
                            run_setop_mut(ctx, &mut a, None, Some(&b), *op, *order, *v0, &ea, &eb, |c| sref.peek(c, 0))?
                        }
                    }
                };
                for (k, v) in &wr.left {
                    if let Some(x) = s.exp.get_mut(k) {
                        x.1 = *v;
                    }
                }
                if !touched_others.contains(&oi) {
                    touched_others.push(oi);
                }
                s.put(a, pa);
            }
        }
    }
    if s.held.len() + s.iters.len() > 0 {
        ctx.hit("fault.abandon fired");
    }
    let Sess { exp, shape_changed, pool, iters, held, .. } = s;
    drop(held);
    drop(iters);
    drop(pool);
    Ok((exp, shape_changed, touched_others))
}

pub fn mut_session<P: SimPrefix>(w: &mut World<P>, ctx: &mut Ctx, target: Opnd, acts: &[MAct]) -> R<Vec<usize>> {
    ctx.hit("step.mut_session");
    let nm = w.maps.len();
    match target {
        Opnd::M(i) => {
            let i = i as usize;
            let t0 = w.truths[i].clone();
            // take the container out of the world so that other containers stay reachable
            let mut real: PrefixMap<P, Val> = std::mem::take(&mut w.maps[i].real);
            let r = run_session(ctx, Some(w), i, real.view_mut(), Key::ZERO, &t0, acts);
            w.maps[i].real = real;
            let (exp, changed, mut touched) = r?;
            post_session(ctx, &t0, &truth_of(&w.maps[i].real.verif_snapshot()), &exp, "map")?;
            w.maps[i].model = exp;
            if changed {
                w.maps[i].canonical = false;
            }
            touched.push(i);
            Ok(touched)
        }
        Opnd::S(i) => {
            let i = i as usize;
            let t0 = w.truths[nm + i].clone();
            let mut real: PrefixSet<P> = std::mem::take(&mut w.sets[i].real);
            let r = run_session(ctx, Some(w), nm + i, real.view_mut(), Key::ZERO, &t0, acts);
            w.sets[i].real = real;
            let (exp, changed, mut touched) = r?;
            post_session(ctx, &t0, &truth_of(&w.sets[i].real.verif_snapshot()), &exp, "set")?;
            w.sets[i].model = exp.into_iter().map(|(k, x)| (k, x.0)).collect();
            if changed {
                w.sets[i].canonical = false;
            }
            touched.push(nm + i);
            Ok(touched)
        }
    }
}

fn post_session(ctx: &mut Ctx, t0: &Truth, t1: &Truth, exp: &Exp, what: &str) -> R {
    let e: Vec<Ent> = exp.iter().map(|(k, x)| Ent { key: *k, raw: x.0, v: x.1 }).collect();
    let core = |v: &[Ent]| v.iter().map(|e| (e.key, e.v)).collect::<Vec<_>>();
    chk!(ctx, "C13", core(&t1.ents) == core(&e), "write-effect:session", "after the mutable session on the {what}: entries {:?}, expected {:?}", t1.ents, e);
    chk!(ctx, "C01", core(&t1.ents) == core(&e), "contents:after-session", "after the mutable session on the {what}: entries {:?}, abstract map {:?}", t1.ents, e);
    chk!(ctx, "C14", core(&t1.ents) == core(&e), "session:lost-or-misdirected-write", "after the mutable session on the {what}: entries {:?}, expected {:?}", t1.ents, e);
    // value-only operations through views never change the shape
    let shape = |t: &Truth| t.nodes.iter().map(|n| (n.raw.key(), n.left, n.right)).collect::<Vec<_>>();
    chk!(ctx, "C13", shape(t0) == shape(t1), "shape-changed:session", "operations through mutable views changed the tree shape");
    chk!(ctx, "C15", shape(t0) == shape(t1), "shape-changed:view-ops", "value-only operations through views changed the tree shape");
    Ok(())
}
