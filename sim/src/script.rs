//! A run's script: plain data drawn from the PRNG *before* anything executes.

use crate::key::{mask, Key, Raw};
use crate::ptypes::{PType, ALL_PTYPES};
use crate::rng::Rng;
use serde::{Deserialize, Serialize};

#[derive(Clone, Debug, Serialize, Deserialize, PartialEq)]
pub struct Cfg {
    pub ptype: PType,
    pub n_maps: u8,
    pub n_sets: u8,
    /// candidate keys (network form) steps draw from
    pub universe: Vec<Raw>,
    /// the universe is all 511 prefixes of the 8 bit type: probes are exhaustive per state
    pub full_u8: bool,
    /// 0 = never, 1 = half of the arguments, 2 = always (only for types that keep host bits)
    pub host_bits: u8,
    pub family: String,
    /// fault configuration (callback panics, forgotten handles); separate from fault-free runs
    pub faults: bool,
    /// build profile the run was generated for ("checked" | "fast"); informational
    #[serde(default)]
    pub profile: String,
}

#[derive(Clone, Copy, Debug, Serialize, Deserialize, PartialEq, Eq)]
pub enum Opnd {
    M(u8),
    S(u8),
}

/// navigation from a whole-container view to a sub-view
#[derive(Clone, Debug, Serialize, Deserialize, PartialEq)]
pub enum Nav {
    At(Raw),
    Left,
    Right,
    Find(Raw),
    FindExact(Raw),
    FindLpm(Raw),
}

#[derive(Clone, Debug, Serialize, Deserialize, PartialEq)]
pub enum OAct {
    Key,
    Get,
    GetMutWrite(u64),
    Remove,
    /// terminal
    Insert(u64),
    /// terminal: `Entry::Occupied(e).or_insert(v)`
    RewrapOrInsert(u64),
    /// terminal: `Entry::Occupied(e).and_modify(..).or_insert_with(..)`
    RewrapModify(u64),
    /// terminal: `Entry::Occupied(e).or_default()`
    RewrapOrDefault,
    /// terminal
    Forget,
}

#[derive(Clone, Debug, Serialize, Deserialize, PartialEq)]
pub enum VAct {
    Key,
    /// terminal
    Insert(u64),
    InsertWith(u64),
    Default,
    Forget,
}

#[derive(Clone, Debug, Serialize, Deserialize, PartialEq)]
pub enum EAct {
    Get,
    GetMutWrite(u64),
    Key,
    AndModify(u64),
    /// terminals
    Insert(u64),
    OrInsert(u64),
    OrInsertWith(u64),
    OrDefault,
    Match { occ: Vec<OAct>, vac: Vec<VAct> },
    Forget,
}

/// actions of a mutable view session; indices are interpreted modulo the current pool sizes
#[derive(Clone, Debug, Serialize, Deserialize, PartialEq)]
pub enum MAct {
    Left(u32),
    Right(u32),
    Split(u32),
    Find(u32, Raw),
    FindExact(u32, Raw),
    FindLpm(u32, Raw),
    Set(u32, u64),
    Remove(u32),
    ValueMutWrite(u32, u64),
    PrefixValueMutWrite(u32, u64),
    /// iter_mut (form 0) / values_mut (form 1) on view i, hold all refs, write in permuted order
    IterMutScoped { i: u32, form: u8, order: u64, v0: u64 },
    /// view i is consumed into a live iterator
    IntoIter(u32),
    /// live iterator j yields one more reference which is kept
    Next(u32),
    /// write through held reference r
    WriteHeld(u32, u64),
    /// read-only use of view i while everything else is alive
    Peek(u32),
    /// `*_mut` set operation between view i and view j of the same map (op 0 union,1 intersection,
    /// 2 difference,3 covering difference); items are held and written in permuted order,
    /// interleaved with peeks on other views
    SetOpSame { i: u32, j: u32, op: u8, order: u64, v0: u64 },
    /// the same against the whole / a sub-view of another container
    SetOpOther { i: u32, other: Opnd, nav: Vec<Nav>, op: u8, order: u64, v0: u64 },
    Forget(u32),
    /// `rounds` times remove() + set() on view i (thread scenarios: stresses the shared entry counter)
    Churn { i: u32, rounds: u32, v0: u64 },
}

/// handles of a read session
#[derive(Clone, Debug, Serialize, Deserialize, PartialEq)]
pub enum HSpec {
    Iter(Opnd),
    Keys(Opnd),
    Values(Opnd),
    Children(Opnd, Raw),
    Cover(Opnd, Raw),
    CoverKeys(Opnd, Raw),
    CoverValues(Opnd, Raw),
    ViewIter(Opnd, Vec<Nav>),
    ViewKeys(Opnd, Vec<Nav>),
    ViewValues(Opnd, Vec<Nav>),
    /// op: 0 union, 1 intersection, 2 difference, 3 covering difference
    SetOp { op: u8, a: Opnd, na: Vec<Nav>, b: Opnd, nb: Vec<Nav> },
    /// consuming iterators over a clone of the container: 0 into_iter, 1 into_keys, 2 into_values, 3 into_children(k)
    Into(Opnd, u8, Raw),
}

/// scheduler decisions of a read session (interpreted modulo the number of live handles)
#[derive(Clone, Debug, Serialize, Deserialize, PartialEq)]
pub enum RAct {
    Next(u32),
    CloneH(u32),
    DropH(u32),
    Overrun(u32),
}

#[derive(Clone, Debug, Serialize, Deserialize, PartialEq)]
pub enum Step {
    Insert { m: u8, k: Raw, v: u64 },
    Remove { m: u8, k: Raw },
    RemoveKeepTree { m: u8, k: Raw },
    RemoveChildren { m: u8, k: Raw },
    /// keep an entry iff hash(salt, key) % 8 < keep; panic at the given callback index
    Retain { m: u8, salt: u64, keep: u8, panic_at: Option<u32> },
    Clear { m: u8 },
    GetMutWrite { m: u8, k: Raw, v: u64 },
    LpmMutWrite { m: u8, k: Raw, v: u64 },
    /// form: 0 iter_mut, 1 values_mut, 2 children_mut(k)
    IterMutWrite { m: u8, form: u8, k: Raw, order: u64, v0: u64 },
    Entry { m: u8, k: Raw, acts: Vec<EAct>, panic_at: Option<u32> },
    CloneInto {
        m: u8,
        dst: u8,
        /// use `dst.clone_from(&src)` instead of `dst = src.clone()`
        #[serde(default)]
        clone_from: bool,
    },
    /// how: 0 into_iter().collect(), 1 iter-cloned collect in permuted order, 2 into_children(zero), 3 into_keys+into_values zip,
    /// 4 collect() from the entries plus duplicates of some networks (other host bits / values)
    Rebuild { m: u8, how: u8, order: u64 },
    Serde { m: u8, k0: u64, k1: u64 },
    Swap { a: u8, b: u8 },
    MutSession { m: u8, acts: Vec<MAct> },
    ReadSession { handles: Vec<HSpec>, sched: Vec<RAct> },
    // ---- sets
    SInsert { s: u8, k: Raw },
    SRemove { s: u8, k: Raw },
    SRemoveKeepTree { s: u8, k: Raw },
    SRemoveChildren { s: u8, k: Raw },
    SRetain { s: u8, salt: u64, keep: u8, panic_at: Option<u32> },
    SClear { s: u8 },
    SCloneInto {
        s: u8,
        dst: u8,
        #[serde(default)]
        clone_from: bool,
    },
    SRebuild { s: u8, how: u8, order: u64 },
    SSerde { s: u8, k0: u64, k1: u64 },
    SMutSession { s: u8, acts: Vec<MAct> },
}

#[derive(Clone, Debug, Serialize, Deserialize, PartialEq)]
pub struct Script {
    pub property: String,
    pub verif_seed: u64,
    pub run: u64,
    pub seed: u64,
    pub cfg: Cfg,
    pub steps: Vec<Step>,
}

// ------------------------------------------------------------------------------------------
// generation

pub struct GenParams {
    pub property: String,
    pub tier_thorough: bool,
    pub profile: String,
}

fn left_align(width: u8, x: u128) -> u128 {
    if width >= 128 {
        x
    } else {
        (x & ((1u128 << width) - 1)) << (128 - width as u32)
    }
}

pub fn gen_universe(rng: &mut Rng, width: u8, full_u8: bool) -> Vec<Raw> {
    if full_u8 {
        let mut v = vec![];
        for len in 0..=8u8 {
            for a in 0..(1u32 << len) {
                let addr = if len == 0 { 0 } else { ((a as u128) << (8 - len)) << 120 };
                v.push(Raw { addr, len });
            }
        }
        return v;
    }
    let w = width;
    if rng.chance(1, 5) {
        // chain universe: every truncation of one or two addresses at the shallow and the deep end
        // (paths with a node at every length, full-width leaves, adjacent full-width siblings)
        let mut out: Vec<Raw> = vec![];
        let nb = rng.range(1, 2);
        for _ in 0..nb {
            let base = match rng.below(4) {
                0 => 0,
                1 => left_align(w, !0u128),
                _ => left_align(w, rng.u128()),
            };
            // sometimes a deep comb at the shallow end (more than 33 nested levels on wide types)
            let shallow = if w >= 64 && rng.chance(1, 4) { 44 } else { 8.min(w) };
            let mut lens: Vec<u8> = (0..=shallow).collect();
            lens.extend(w.saturating_sub(8)..=w);
            for l in lens {
                let k = Raw { addr: base & mask(l), len: l };
                if !out.contains(&k) {
                    out.push(k);
                }
                // the sibling at this length (differs in the last bit of the prefix)
                if l > 0 && rng.chance(1, 2) {
                    let sib = Raw { addr: (base & mask(l)) ^ (1u128 << (128 - l as u32)), len: l };
                    if !out.contains(&sib) {
                        out.push(sib);
                    }
                }
            }
        }
        return out;
    }
    // bases
    let mut bases: Vec<u128> = vec![left_align(w, rng.u128())];
    if rng.chance(2, 3) {
        bases.push(left_align(w, rng.u128()));
    }
    if rng.chance(1, 2) {
        bases.push(0);
    }
    if rng.chance(1, 2) {
        bases.push(left_align(w, !0u128));
    }
    if rng.chance(1, 3) {
        // a base that shares a long prefix with base 0
        let flip = rng.below(w as u64) as u32;
        bases.push(bases[0] ^ (1u128 << (127 - flip)));
    }
    let mut lens: Vec<u8> = vec![0, 1, 2, 3, w / 2 - 1, w / 2, w / 2 + 1, w - 2, w - 1, w];
    for _ in 0..4 {
        lens.push(rng.below(w as u64 + 1) as u8);
    }
    let target = rng.range(10, 44) as usize;
    let mut out: Vec<Raw> = vec![];
    let mut tries = 0;
    while out.len() < target && tries < 400 {
        tries += 1;
        let mut addr = *rng.pick(&bases);
        // vary a handful of bit positions
        let nflip = rng.below(4);
        for _ in 0..nflip {
            let pos = if rng.chance(1, 2) { rng.below(6.min(w as u64)) } else { rng.below(w as u64) } as u32;
            addr ^= 1u128 << (127 - pos);
        }
        let len = *rng.pick(&lens);
        let k = Raw { addr: addr & mask(len), len };
        if !out.contains(&k) {
            out.push(k);
        }
        // nest: sometimes add parent / child / sibling
        if rng.chance(1, 3) && len > 0 {
            let p = Raw { addr: addr & mask(len - 1), len: len - 1 };
            if !out.contains(&p) {
                out.push(p);
            }
        }
        if rng.chance(1, 3) && len < w {
            let c = Key { bits: addr & mask(len), len }.child(rng.chance(1, 2)).raw();
            if !out.contains(&c) {
                out.push(c);
            }
        }
    }
    if rng.chance(1, 2) && !out.contains(&Raw { addr: 0, len: 0 }) {
        out.push(Raw { addr: 0, len: 0 });
    }
    out
}

struct Gen<'a> {
    rng: &'a mut Rng,
    cfg: Cfg,
    width: u8,
    next_v: u64,
    hot: Vec<Raw>,
    /// generate use of an OccupiedEntry after remove()
    uar: bool,
}

impl Gen<'_> {
    fn v(&mut self) -> u64 {
        self.next_v += 1;
        self.next_v
    }
    /// a key argument: from the universe (biased to a hot subset so that hits are frequent),
    /// optionally decorated with host bits
    fn k(&mut self) -> Raw {
        let base = if self.rng.chance(3, 4) && !self.hot.is_empty() {
            *self.rng.pick(&self.hot)
        } else {
            *self.rng.pick(&self.cfg.universe)
        };
        self.host(base)
    }
    /// a selector / query: universe key, or a neighbour (parent, child, sibling, truncation)
    fn q(&mut self) -> Raw {
        let base = self.k().key();
        let k = match self.rng.below(8) {
            0 => base.parent().unwrap_or(base),
            1 if base.len < self.width => base.child(self.rng.chance(1, 2)),
            2 => base.truncate(self.rng.below(base.len as u64 + 1) as u8),
            3 if base.len < self.width => {
                // full-width extension
                let mut k = base;
                while k.len < self.width {
                    k = k.child(self.rng.chance(1, 2));
                }
                k
            }
            4 => Key::ZERO,
            _ => base,
        };
        self.host(k.raw())
    }
    fn host(&mut self, r: Raw) -> Raw {
        let want = match self.cfg.host_bits {
            0 => false,
            1 => self.rng.chance(1, 2),
            _ => true,
        };
        if !want || !self.cfg.ptype.keeps_host() {
            return r;
        }
        let noise = left_align(self.width, self.rng.u128()) & !mask(r.len);
        Raw { addr: (r.addr & mask(r.len)) | noise, len: r.len }
    }
    fn m(&mut self) -> u8 {
        self.rng.below(self.cfg.n_maps as u64) as u8
    }
    fn s(&mut self) -> u8 {
        self.rng.below(self.cfg.n_sets.max(1) as u64) as u8
    }
    fn opnd(&mut self) -> Opnd {
        if self.cfg.n_sets > 0 && self.rng.chance(1, 3) {
            Opnd::S(self.s())
        } else {
            Opnd::M(self.m())
        }
    }
    fn nav(&mut self) -> Vec<Nav> {
        let mut v = vec![];
        let n = self.rng.below(4);
        for i in 0..n {
            let x = match self.rng.below(if i == 0 { 3 } else { 8 }) {
                0 | 1 | 2 => Nav::At(self.q()),
                3 => Nav::Left,
                4 => Nav::Right,
                5 => Nav::Find(self.q()),
                6 => Nav::FindExact(self.k()),
                _ => Nav::FindLpm(self.q()),
            };
            v.push(x);
        }
        v
    }
    fn panic_at(&mut self, max: u32) -> Option<u32> {
        if self.cfg.faults && self.rng.chance(1, 3) {
            Some(self.rng.below(max as u64 + 1) as u32)
        } else {
            None
        }
    }
    fn entry_acts(&mut self) -> Vec<EAct> {
        let mut acts = vec![];
        let n = self.rng.below(3);
        for _ in 0..n {
            let a = match self.rng.below(4) {
                0 => EAct::Get,
                1 => EAct::GetMutWrite(self.v()),
                2 => EAct::Key,
                _ => EAct::AndModify(self.v()),
            };
            acts.push(a);
        }
        let t = match self.rng.below(if self.cfg.faults { 10 } else { 9 }) {
            0 | 1 => EAct::Insert(self.v()),
            2 => EAct::OrInsert(self.v()),
            3 => EAct::OrInsertWith(self.v()),
            4 => EAct::OrDefault,
            5..=8 => {
                let mut occ = vec![];
                let n = self.rng.below(4);
                // use of the handle after OccupiedEntry::remove(&mut self) is a listed finding
                // (KNOWN_FINDINGS.txt, D7); only the C20 family generates it, and rarely
                let allow_uar = self.uar && self.rng.chance(1, 6);
                let mut removed = false;
                for _ in 0..n {
                    let a = match self.rng.below(5) {
                        0 => OAct::Key,
                        1 if !removed || allow_uar => OAct::Get,
                        2 if !removed || allow_uar => OAct::GetMutWrite(self.v()),
                        3 if !removed || allow_uar => {
                            removed = true;
                            OAct::Remove
                        }
                        _ => OAct::Key,
                    };
                    occ.push(a);
                }
                match self.rng.below(6) {
                    0 | 1 if !removed || allow_uar => occ.push(OAct::Insert(self.v())),
                    2 => occ.push(OAct::RewrapOrInsert(self.v())),
                    3 => {
                        if self.rng.chance(1, 2) {
                            occ.push(OAct::RewrapModify(self.v()))
                        } else {
                            occ.push(OAct::RewrapOrDefault)
                        }
                    }
                    4 if self.cfg.faults => occ.push(OAct::Forget),
                    _ => {}
                }
                let mut vac = vec![];
                if self.rng.chance(1, 2) {
                    vac.push(VAct::Key);
                }
                match self.rng.below(5) {
                    0 | 1 => vac.push(VAct::Insert(self.v())),
                    2 => vac.push(VAct::InsertWith(self.v())),
                    3 => vac.push(VAct::Default),
                    _ if self.cfg.faults => vac.push(VAct::Forget),
                    _ => {}
                }
                EAct::Match { occ, vac }
            }
            _ => EAct::Forget,
        };
        acts.push(t);
        acts
    }
    fn mact(&mut self) -> MAct {
        let i = self.rng.next() as u32;
        let j = self.rng.next() as u32;
        match self.rng.below(30) {
            0 | 1 => MAct::Left(i),
            2 | 3 => MAct::Right(i),
            4..=7 => MAct::Split(i),
            8 | 9 => MAct::Find(i, self.q()),
            10 => MAct::FindExact(i, self.k()),
            11 => MAct::FindLpm(i, self.q()),
            12 | 13 => MAct::Set(i, self.v()),
            14 | 15 => MAct::Remove(i),
            16 => MAct::ValueMutWrite(i, self.v()),
            17 => MAct::PrefixValueMutWrite(i, self.v()),
            18 | 19 => MAct::IterMutScoped { i, form: self.rng.below(2) as u8, order: self.rng.next(), v0: self.vblock() },
            20 | 21 => MAct::IntoIter(i),
            22..=24 => MAct::Next(i),
            25 => MAct::WriteHeld(i, self.v()),
            26 => MAct::Peek(i),
            27 => MAct::SetOpSame { i, j, op: self.rng.below(4) as u8, order: self.rng.next(), v0: self.vblock() },
            28 => MAct::SetOpOther {
                i,
                other: self.opnd(),
                nav: self.nav(),
                op: self.rng.below(4) as u8,
                order: self.rng.next(),
                v0: self.vblock(),
            },
            _ => {
                if self.cfg.faults {
                    MAct::Forget(i)
                } else {
                    MAct::Peek(i)
                }
            }
        }
    }
    /// reserve a block of 4096 unique payloads
    fn vblock(&mut self) -> u64 {
        self.next_v = (self.next_v / 4096 + 1) * 4096;
        let v = self.next_v;
        self.next_v += 4096;
        v
    }
    fn hspec(&mut self) -> HSpec {
        let o = self.opnd();
        match self.rng.below(16) {
            0 => HSpec::Iter(o),
            1 => HSpec::Keys(o),
            2 => HSpec::Values(o),
            3 => HSpec::Children(o, self.q()),
            4 => HSpec::Cover(o, self.q()),
            5 => HSpec::CoverKeys(o, self.q()),
            6 => HSpec::CoverValues(o, self.q()),
            7 => HSpec::ViewIter(o, self.nav()),
            8 => HSpec::ViewKeys(o, self.nav()),
            9 => HSpec::ViewValues(o, self.nav()),
            10..=13 => HSpec::SetOp { op: self.rng.below(4) as u8, a: o, na: self.nav(), b: self.opnd(), nb: self.nav() },
            _ => HSpec::Into(o, self.rng.below(4) as u8, self.q()),
        }
    }
}

/// operation families: weights over the step kinds (see `gen_step`)
fn family_weights(family: &str) -> [u32; 27] {
    // idx: 0 insert,1 remove,2 remove_keep_tree,3 remove_children,4 retain,5 clear,6 get_mut_write,
    // 7 lpm_mut_write,8 iter_mut_write,9 entry,10 clone_into,11 rebuild,12 serde,13 swap,
    // 14 mut_session,15 read_session,16 s_insert,17 s_remove,18 s_remove_keep_tree,
    // 19 s_remove_children,20 s_retain,21 s_clear,22 s_clone_into,23 s_rebuild,24 s_serde,25 s_mut_session, 26 unused
    match family {
        "canon" => [30, 14, 0, 0, 5, 1, 3, 2, 2, 0, 2, 2, 1, 1, 0, 2, 10, 6, 0, 0, 2, 1, 1, 1, 0, 0, 0],
        "canon_entry" => [16, 14, 0, 0, 5, 1, 3, 2, 2, 14, 2, 2, 1, 1, 0, 2, 6, 4, 0, 0, 2, 1, 1, 1, 0, 0, 0],
        "noncanon" => [26, 6, 10, 5, 3, 1, 2, 2, 2, 8, 2, 1, 1, 1, 6, 3, 10, 3, 5, 3, 2, 1, 1, 1, 0, 2, 0],
        "churn" => [40, 30, 2, 6, 6, 1, 0, 0, 0, 4, 1, 0, 0, 0, 0, 0, 8, 6, 1, 2, 2, 0, 0, 0, 0, 0, 0],
        "sessions" => [24, 5, 6, 3, 2, 1, 1, 1, 3, 4, 1, 1, 0, 1, 16, 8, 8, 2, 3, 1, 1, 0, 0, 0, 0, 4, 0],
        "readers" => [26, 5, 6, 3, 2, 1, 1, 1, 1, 4, 1, 1, 0, 1, 2, 20, 10, 3, 3, 1, 1, 0, 1, 1, 0, 1, 0],
        "equality" => [24, 8, 6, 3, 3, 1, 2, 1, 1, 4, 8, 5, 5, 3, 2, 1, 8, 4, 3, 1, 1, 1, 4, 3, 3, 1, 0],
        // many value-less left-over nodes (remove_keep_tree, removal through views and entries) and
        // insertions through both insert and the entry API on top of them
        "leftover" => [20, 4, 14, 4, 2, 0, 1, 1, 1, 18, 1, 1, 0, 0, 8, 2, 6, 2, 5, 2, 1, 0, 0, 0, 0, 3, 0],
        "faulty" => [20, 6, 5, 3, 12, 1, 1, 1, 1, 16, 1, 1, 0, 1, 4, 2, 6, 2, 2, 1, 6, 0, 0, 0, 0, 1, 0],
        _ => [26, 8, 6, 4, 4, 1, 3, 2, 3, 10, 2, 2, 1, 1, 5, 4, 8, 3, 3, 2, 2, 1, 1, 1, 1, 2, 0],
    }
}

pub fn families_for(property: &str) -> &'static [&'static str] {
    match property {
        "C15" => &["canon", "canon_entry", "general", "noncanon", "leftover"],
        "C11" => &["canon", "general", "noncanon", "canon_entry", "leftover"],
        "C16" => &["churn", "churn", "general", "faulty"],
        "C13" | "C14" => &["sessions", "sessions", "noncanon"],
        "C03" => &["readers", "general", "noncanon", "leftover"],
        "C05" | "C06" | "C07" | "C08" => &["noncanon", "general", "readers", "canon"],
        "C19" => &["equality", "equality", "noncanon"],
        "C20" => &["faulty", "general", "noncanon", "sessions"],
        "C10" => &["general", "noncanon", "churn", "faulty", "leftover"],
        "C01" | "C04" | "C18" => &["general", "noncanon", "canon_entry", "sessions", "faulty", "leftover"],
        _ => &["general", "noncanon", "canon", "leftover"],
    }
}

pub fn generate(verif_seed: u64, params: &GenParams, run: u64) -> Script {
    let seed = crate::rng::run_seed(verif_seed, &params.property, run);
    let mut rng = Rng::new(seed);
    let fams = families_for(&params.property);
    let family = fams[(run % fams.len() as u64) as usize].to_string();
    // prefix type: rotate through all 14 so that every batch covers every type; u8 gets extra weight
    let ptype = if rng.chance(1, 4) { PType::U8 } else { ALL_PTYPES[((run / fams.len() as u64) % 14) as usize] };
    let width = ptype.width();
    let full_u8 = ptype == PType::U8 && rng.chance(1, 2);
    let universe = gen_universe(&mut rng, width, full_u8);
    let faults = family == "faulty" || (matches!(params.property.as_str(), "C20" | "C01" | "C04" | "C10" | "C15" | "C16") && rng.chance(1, 4));
    let cfg = Cfg {
        ptype,
        n_maps: rng.range(1, 3) as u8,
        n_sets: rng.range(0, 2) as u8,
        universe,
        full_u8,
        host_bits: if ptype.keeps_host() { if params.property == "C18" { rng.range(1, 2) as u8 } else { rng.below(3) as u8 } } else { 0 },
        family: family.clone(),
        faults,
        profile: params.profile.clone(),
    };
    let nsteps = if family == "churn" {
        if params.tier_thorough { rng.range(200, 1500) } else { rng.range(100, 600) }
    } else if params.tier_thorough {
        rng.range(20, 160)
    } else {
        rng.range(12, 90)
    } as usize;
    let mut hot: Vec<Raw> = vec![];
    let nhot = if full_u8 { rng.range(6, 30) } else { rng.range(4, 24).min(cfg.universe.len() as u64) } as usize;
    for _ in 0..nhot {
        hot.push(*rng.pick(&cfg.universe));
    }
    let weights = family_weights(&family);
    let mut g = Gen { rng: &mut rng, cfg: cfg.clone(), width, next_v: 100, hot, uar: params.property == "C20" || params.property == "C04" };
    let mut steps = Vec::with_capacity(nsteps);
    // chain universes: often start from the fully populated chain (a node at every length of the
    // shallow and the deep end of one path), inserted in a random order
    let is_chain = !g.cfg.full_u8 && g.cfg.universe.len() >= 9 && (0..=8u8.min(width)).all(|l| g.cfg.universe.iter().any(|r| r.len == l)) && g.cfg.universe.iter().filter(|r| r.len == 0).count() == 1 && g.cfg.universe.iter().all(|r| r.len <= 44 || r.len >= width.saturating_sub(8));
    // "leftovers" preamble on the full 8-bit universe: many entries, most (sometimes all) of them
    // removed again with remove_keep_tree -> dozens of value-less nodes, large sparse arenas
    if g.cfg.full_u8 && g.rng.chance(1, 5) {
        let m = g.m();
        let n = g.rng.range(40, 160) as usize;
        let mut keys: Vec<Raw> = (0..n).map(|_| *g.rng.pick(&g.cfg.universe)).collect();
        keys.sort();
        keys.dedup();
        g.rng.shuffle(&mut keys);
        for k in &keys {
            let v = g.v();
            steps.push(Step::Insert { m, k: *k, v });
        }
        let all = g.rng.chance(1, 3);
        for k in &keys {
            if all || g.rng.chance(9, 10) {
                if g.rng.chance(1, 12) {
                    steps.push(Step::Remove { m, k: *k });
                } else {
                    steps.push(Step::RemoveKeepTree { m, k: *k });
                }
            }
        }
    }
    if is_chain && g.rng.chance(2, 3) {
        let mut keys = g.cfg.universe.clone();
        g.rng.shuffle(&mut keys);
        let m = g.m();
        for k in keys {
            if g.rng.chance(5, 6) {
                let k = g.host(k);
                let v = g.v();
                steps.push(Step::Insert { m, k, v });
            }
        }
    }
    for _ in 0..nsteps {
        steps.push(gen_step(&mut g, &weights));
    }
    Script { property: params.property.clone(), verif_seed, run, seed, cfg, steps }
}

fn gen_step(g: &mut Gen, weights: &[u32; 27]) -> Step {
    let mut w = *weights;
    if g.cfg.n_sets == 0 {
        for x in w.iter_mut().skip(16) {
            *x = 0;
        }
    }
    if !g.cfg.ptype.has_serde() {
        w[12] = 0;
        w[24] = 0;
    }
    match g.rng.weighted(&w) {
        0 => Step::Insert { m: g.m(), k: g.k(), v: g.v() },
        1 => Step::Remove { m: g.m(), k: g.k() },
        2 => Step::RemoveKeepTree { m: g.m(), k: g.k() },
        3 => Step::RemoveChildren { m: g.m(), k: g.q() },
        4 => Step::Retain { m: g.m(), salt: g.rng.next(), keep: g.rng.range(0, 8) as u8, panic_at: g.panic_at(12) },
        5 => Step::Clear { m: g.m() },
        6 => Step::GetMutWrite { m: g.m(), k: g.k(), v: g.v() },
        7 => Step::LpmMutWrite { m: g.m(), k: g.q(), v: g.v() },
        8 => Step::IterMutWrite { m: g.m(), form: g.rng.below(3) as u8, k: g.q(), order: g.rng.next(), v0: g.vblock() },
        9 => Step::Entry { m: g.m(), k: g.k(), acts: g.entry_acts(), panic_at: g.panic_at(1) },
        10 => Step::CloneInto { m: g.m(), dst: g.m(), clone_from: g.rng.chance(1, 2) },
        11 => Step::Rebuild { m: g.m(), how: g.rng.below(5) as u8, order: g.rng.next() },
        12 => Step::Serde { m: g.m(), k0: g.rng.next(), k1: g.rng.next() },
        13 => Step::Swap { a: g.m(), b: g.m() },
        14 => {
            let n = g.rng.range(2, 24);
            Step::MutSession { m: g.m(), acts: (0..n).map(|_| g.mact()).collect() }
        }
        15 => {
            let nh = g.rng.range(1, 4);
            let handles: Vec<HSpec> = (0..nh).map(|_| g.hspec()).collect();
            let ns = g.rng.range(4, 60);
            let sched = (0..ns)
                .map(|_| {
                    let i = g.rng.next() as u32;
                    match g.rng.below(20) {
                        0 => RAct::CloneH(i),
                        1 => RAct::DropH(i),
                        2 | 3 => RAct::Overrun(i),
                        _ => RAct::Next(i),
                    }
                })
                .collect();
            Step::ReadSession { handles, sched }
        }
        16 => Step::SInsert { s: g.s(), k: g.k() },
        17 => Step::SRemove { s: g.s(), k: g.k() },
        18 => Step::SRemoveKeepTree { s: g.s(), k: g.k() },
        19 => Step::SRemoveChildren { s: g.s(), k: g.q() },
        20 => Step::SRetain { s: g.s(), salt: g.rng.next(), keep: g.rng.range(0, 8) as u8, panic_at: g.panic_at(12) },
        21 => Step::SClear { s: g.s() },
        22 => Step::SCloneInto { s: g.s(), dst: g.s(), clone_from: g.rng.chance(1, 2) },
        23 => Step::SRebuild { s: g.s(), how: g.rng.below(2) as u8, order: g.rng.next() },
        24 => Step::SSerde { s: g.s(), k0: g.rng.next(), k1: g.rng.next() },
        _ => {
            let n = g.rng.range(2, 16);
            Step::SMutSession { s: g.s(), acts: (0..n).map(|_| g.mact()).collect() }
        }
    }
}

// ------------------------------------------------------------------------------------------
// threaded scenarios (C14): build-up script + cuts of the whole-map view + per-worker actions

#[derive(Clone, Debug, Serialize, Deserialize, PartialEq)]
pub struct ThreadScn {
    pub verif_seed: u64,
    pub idx: u64,
    pub script: Script,
    /// navigation actions that cut the whole-map mutable view into disjoint views
    pub cuts: Vec<MAct>,
    /// one action list per worker thread
    pub workers: Vec<Vec<MAct>>,
}

pub fn gen_thread_scn(verif_seed: u64, idx: u64, small: bool) -> ThreadScn {
    let params = GenParams { property: "C14".into(), tier_thorough: false, profile: "checked".into() };
    let mut script = generate(verif_seed, &params, idx);
    // build-up: plain mutators only, on one map
    script.steps.retain(|s| matches!(s, Step::Insert { .. } | Step::Remove { .. } | Step::RemoveKeepTree { .. } | Step::RemoveChildren { .. } | Step::Entry { .. }));
    script.steps.truncate(if small { 14 } else { 40 });
    script.cfg.n_maps = 1;
    script.cfg.n_sets = 0;
    script.cfg.faults = false;
    let mut rng = Rng::new(crate::rng::mix64(script.seed ^ 0x7472_6561_6473));
    let width = script.cfg.ptype.width();
    let hot = script.cfg.universe.clone();
    let mut g = Gen { rng: &mut rng, cfg: script.cfg.clone(), width, next_v: 1 << 32, hot, uar: false };
    if idx % 8 == 5 {
        // counter-zero window: all values of the map live in one worker's view, which cycles
        // remove()+set() (the shared entry counter is 0 in between); the other worker navigates
        // through value-less leftover nodes and writes where it arrives
        let w = width;
        let top = |bits: u128, len: u8| Raw { addr: bits << (128 - len as u32), len };
        let a_root = top(0, 2);
        let a_child = if w > 4 { Key { bits: a_root.addr, len: 2 }.child(g.rng.chance(1, 2)).child(g.rng.chance(1, 2)).raw() } else { a_root };
        let b_root = top(1, 1);
        let mut v = 1u64 << 34;
        let mut steps = vec![];
        for k in [a_root, a_child, b_root] {
            steps.push(Step::Insert { m: 0, k, v });
            v += 1;
        }
        steps.push(Step::RemoveKeepTree { m: 0, k: a_child });
        steps.push(Step::RemoveKeepTree { m: 0, k: a_root });
        script.steps = steps;
        let cuts = vec![MAct::Split(0)];
        let rounds = if small { 30 } else { 80 };
        let mut wa = vec![];
        for _ in 0..g.rng.range(2, 5) {
            wa.push(MAct::Find(0, a_child));
            wa.push(MAct::Set(0, g.v()));
            wa.push(MAct::Peek(0));
        }
        // ... and then cycles remove()+set() on the entry it created, so that the counter moves
        // between 0, 1 and 2 while both workers update it
        wa.push(MAct::Churn { i: 0, rounds, v0: g.vblock() });
        let wb = vec![MAct::Churn { i: 0, rounds, v0: g.vblock() }];
        // split() yields (left, right): left = the value-less side, right = the valued side
        return ThreadScn { verif_seed, idx, script, cuts, workers: vec![wa, wb] };
    }
    if idx % 4 == 3 {
        // counter stress: two (or four) valued sub-trie roots, every worker cycles remove()+set()
        // on its own root entry, so that updates of the shared entry counter interleave
        let w = width;
        let top = |bits: u128, len: u8| Raw { addr: bits << (128 - len as u32), len };
        let mut steps = vec![];
        let mut v = 1u64 << 33;
        let deep = g.rng.chance(1, 2);
        let roots: Vec<Raw> = if deep { vec![top(0, 2), top(1, 2), top(2, 2), top(3, 2)] } else { vec![top(0, 1), top(1, 1)] };
        for r in &roots {
            steps.push(Step::Insert { m: 0, k: *r, v });
            v += 1;
            if w > 4 {
                let child = Key { bits: r.addr, len: r.len }.child(g.rng.chance(1, 2)).child(g.rng.chance(1, 2)).raw();
                steps.push(Step::Insert { m: 0, k: child, v });
                v += 1;
            }
        }
        script.steps = steps;
        let cuts = if deep { vec![MAct::Split(0), MAct::Split(0), MAct::Split(0)] } else { vec![MAct::Split(0)] };
        let rounds = if small { 40 } else { 120 };
        let workers: Vec<Vec<MAct>> = (0..roots.len())
            .map(|_| vec![MAct::Churn { i: 0, rounds, v0: g.vblock() }, MAct::IterMutScoped { i: 0, form: 0, order: g.rng.next(), v0: g.vblock() }, MAct::Churn { i: 0, rounds, v0: g.vblock() }])
            .collect();
        return ThreadScn { verif_seed, idx, script, cuts, workers };
    }
    let ncuts = g.rng.range(1, 6);
    let mut cuts = vec![];
    for _ in 0..ncuts {
        let i = g.rng.next() as u32;
        cuts.push(match g.rng.below(8) {
            0..=4 => MAct::Split(i),
            5 => MAct::Find(i, g.q()),
            6 => MAct::Left(i),
            _ => MAct::Right(i),
        });
    }
    let nw = g.rng.range(2, 4);
    let mut workers = vec![];
    for _ in 0..nw {
        let n = if small { g.rng.range(2, 7) } else { g.rng.range(3, 14) };
        let acts: Vec<MAct> = (0..n)
            .map(|_| match g.mact() {
                MAct::SetOpOther { i, .. } => MAct::Peek(i),
                MAct::Forget(i) => MAct::IntoIter(i),
                a => a,
            })
            .collect();
        let mut acts = acts;
        if g.rng.chance(2, 3) {
            let pos = g.rng.below(acts.len() as u64 + 1) as usize;
            let rounds = if small { g.rng.range(10, 40) } else { g.rng.range(20, 80) } as u32;
            acts.insert(pos, MAct::Churn { i: g.rng.next() as u32, rounds, v0: g.vblock() });
        }
        workers.push(acts);
    }
    ThreadScn { verif_seed, idx, script, cuts, workers }
}

/// Scripts for the aliasing checker (Miri): two maps over one universe, then mutable sessions made
/// of `*_mut` set operations against the other map (all four operations, various view roots),
/// with every yielded reference held and written.
pub fn gen_setop_mut_script(verif_seed: u64, idx: u64) -> Script {
    let params = GenParams { property: "C13".into(), tier_thorough: false, profile: "miri".into() };
    let mut script = generate(verif_seed, &params, idx);
    script.cfg.n_maps = 2;
    script.cfg.n_sets = if idx % 3 == 0 { 1 } else { 0 };
    script.cfg.faults = false;
    let mut rng = Rng::new(crate::rng::mix64(script.seed ^ 0x5e70));
    let width = script.cfg.ptype.width();
    let hot = script.cfg.universe.clone();
    let mut g = Gen { rng: &mut rng, cfg: script.cfg.clone(), width, next_v: 1 << 36, hot, uar: false };
    let mut steps = vec![];
    for m in 0..2u8 {
        for _ in 0..g.rng.range(6, 16) {
            steps.push(Step::Insert { m, k: g.k(), v: g.v() });
        }
        for _ in 0..g.rng.range(0, 3) {
            steps.push(Step::RemoveKeepTree { m, k: g.k() });
        }
    }
    if script.cfg.n_sets > 0 {
        for _ in 0..g.rng.range(3, 8) {
            steps.push(Step::SInsert { s: 0, k: g.k() });
        }
    }
    for round in 0..2u8 {
        let mut acts = vec![];
        for _ in 0..g.rng.range(4, 9) {
            let i = g.rng.next() as u32;
            match g.rng.below(10) {
                0 => acts.push(MAct::Split(i)),
                1 => acts.push(MAct::Find(i, g.q())),
                2 => acts.push(MAct::SetOpSame { i, j: g.rng.next() as u32, op: g.rng.below(4) as u8, order: g.rng.next(), v0: g.vblock() }),
                _ => {
                    let other = if g.cfg.n_sets > 0 && g.rng.chance(1, 4) { Opnd::S(0) } else { Opnd::M(1 - round) };
                    acts.push(MAct::SetOpOther { i, other, nav: g.nav(), op: g.rng.below(4) as u8, order: g.rng.next(), v0: g.vblock() })
                }
            }
        }
        steps.push(Step::MutSession { m: round, acts });
    }
    script.steps = steps;
    script
}
