//! Auxiliary static probe for C14's compile-time clause — NOT part of the simulation.
//!
//! "Programs that would move maps/views holding non-thread-safe values across threads are rejected
//! at compile time" quantifies over programs; no execution observes a rejection. What can be
//! evaluated cheaply and deterministically at build time is the auto-trait matrix that decides
//! which threaded programs the compiler accepts: for every handle type and four value types
//! (Send+Sync, Send+!Sync, Sync+!Send, !Send+!Sync) whether the handle is Send / Sync. A handle
//! that is more permissive than the reference it stands for is unsound.

use prefix_trie::map::{Entry, IntoIter, Iter, IterMut, Keys, OccupiedEntry, VacantEntry, Values, ValuesMut};
use prefix_trie::trieview::{CoveringDifferenceMut, Difference, DifferenceMut, Intersection, IntersectionMut, Union, UnionMut};
use prefix_trie::{PrefixMap, TrieView, TrieViewMut};
use std::marker::PhantomData;

struct Probe<T: ?Sized>(PhantomData<T>);
trait Fallback {
    const SEND: bool = false;
    const SYNC: bool = false;
}
impl<T: ?Sized> Fallback for Probe<T> {}
// inherent associated consts shadow the trait's when the bound holds
impl<T: ?Sized + Send> Probe<T> {
    const SEND: bool = true;
}
impl<T: ?Sized + Sync> Probe<T> {
    const SYNC: bool = true;
}

type K = (u32, u8);
type VSendSync = u32;
type VSendNotSync = std::cell::Cell<u32>;
type VSyncNotSend = std::sync::MutexGuard<'static, u32>;
type VNeither = std::rc::Rc<u32>;

#[derive(Clone, Copy, PartialEq)]
enum Kind {
    /// owns the values: Send needs T: Send, Sync needs T: Sync
    Owner,
    /// stands for `&T`: Send and Sync both need T: Sync
    Shared,
    /// stands for `&mut T`: Send needs T: Send, Sync needs T: Sync
    Mutable,
}

pub struct Row {
    pub ty: &'static str,
    pub value: &'static str,
    pub send: bool,
    pub sync: bool,
    pub unsound: Vec<&'static str>,
}

macro_rules! rows {
    ($out:ident, $kind:expr, $name:expr, $ty:ident) => {
        rows!(@one $out, $kind, $name, "Send+Sync", true, true, $ty<VSendSync>);
        rows!(@one $out, $kind, $name, "Send+!Sync", true, false, $ty<VSendNotSync>);
        rows!(@one $out, $kind, $name, "Sync+!Send", false, true, $ty<VSyncNotSend>);
        rows!(@one $out, $kind, $name, "!Send+!Sync", false, false, $ty<VNeither>);
    };
    (@one $out:ident, $kind:expr, $name:expr, $vname:expr, $vsend:expr, $vsync:expr, $t:ty) => {{
        let (send, sync) = (<Probe<$t>>::SEND, <Probe<$t>>::SYNC);
        let mut unsound = vec![];
        let (need_send_ok, need_sync_ok) = match $kind {
            Kind::Owner | Kind::Mutable => ($vsend, $vsync),
            Kind::Shared => ($vsync, $vsync),
        };
        if send && !need_send_ok {
            unsound.push("Send");
        }
        if sync && !need_sync_ok {
            unsound.push("Sync");
        }
        $out.push(Row { ty: $name, value: $vname, send, sync, unsound });
    }};
}

type TMap<T> = PrefixMap<K, T>;
type TView<T> = TrieView<'static, K, T>;
type TViewMut<T> = TrieViewMut<'static, K, T>;
type TIter<T> = Iter<'static, K, T>;
type TKeys<T> = Keys<'static, K, T>;
type TValues<T> = Values<'static, K, T>;
type TIterMut<T> = IterMut<'static, K, T>;
type TValuesMut<T> = ValuesMut<'static, K, T>;
type TIntoIter<T> = IntoIter<K, T>;
type TEntry<T> = Entry<'static, K, T>;
type TOcc<T> = OccupiedEntry<'static, K, T>;
type TVac<T> = VacantEntry<'static, K, T>;
type TUnion<T> = Union<'static, K, T, T>;
type TInter<T> = Intersection<'static, K, T, T>;
type TDiff<T> = Difference<'static, K, T, T>;
type TUnionMut<T> = UnionMut<'static, K, T, T>;
type TInterMut<T> = IntersectionMut<'static, K, T, T>;
type TDiffMut<T> = DifferenceMut<'static, K, T, u32>;
type TCovDiffMut<T> = CoveringDifferenceMut<'static, K, T, u32>;
/// the *right* operand of difference_mut is only read
type TDiffMutR<T> = DifferenceMut<'static, K, u32, T>;
type TCovDiffMutR<T> = CoveringDifferenceMut<'static, K, u32, T>;
// two-sided mutable operations with different value types on the two sides
type TUnionMutL<T> = UnionMut<'static, K, T, u32>;
type TUnionMutR<T> = UnionMut<'static, K, u32, T>;
type TInterMutL<T> = IntersectionMut<'static, K, T, u32>;
type TInterMutR<T> = IntersectionMut<'static, K, u32, T>;
type TUnionR<T> = Union<'static, K, u32, T>;
type TInterR<T> = Intersection<'static, K, u32, T>;
type TDiffR<T> = Difference<'static, K, u32, T>;

pub fn matrix() -> Vec<Row> {
    let mut out = vec![];
    rows!(out, Kind::Owner, "PrefixMap<P,T>", TMap);
    rows!(out, Kind::Owner, "map::IntoIter<P,T>", TIntoIter);
    rows!(out, Kind::Shared, "TrieView<'_,P,T>", TView);
    rows!(out, Kind::Shared, "map::Iter<'_,P,T>", TIter);
    rows!(out, Kind::Shared, "map::Keys<'_,P,T>", TKeys);
    rows!(out, Kind::Shared, "map::Values<'_,P,T>", TValues);
    rows!(out, Kind::Shared, "trieview::Union<'_,P,T,T>", TUnion);
    rows!(out, Kind::Shared, "trieview::Intersection<'_,P,T,T>", TInter);
    rows!(out, Kind::Shared, "trieview::Difference<'_,P,T,T>", TDiff);
    rows!(out, Kind::Shared, "trieview::DifferenceMut<'_,P,u32,T> (right operand)", TDiffMutR);
    rows!(out, Kind::Shared, "trieview::CoveringDifferenceMut<'_,P,u32,T> (right operand)", TCovDiffMutR);
    rows!(out, Kind::Shared, "trieview::Union<'_,P,u32,T>", TUnionR);
    rows!(out, Kind::Shared, "trieview::Intersection<'_,P,u32,T>", TInterR);
    rows!(out, Kind::Shared, "trieview::Difference<'_,P,u32,T>", TDiffR);
    rows!(out, Kind::Mutable, "trieview::UnionMut<'_,P,T,u32>", TUnionMutL);
    rows!(out, Kind::Mutable, "trieview::UnionMut<'_,P,u32,T>", TUnionMutR);
    rows!(out, Kind::Mutable, "trieview::IntersectionMut<'_,P,T,u32>", TInterMutL);
    rows!(out, Kind::Mutable, "trieview::IntersectionMut<'_,P,u32,T>", TInterMutR);
    rows!(out, Kind::Mutable, "TrieViewMut<'_,P,T>", TViewMut);
    rows!(out, Kind::Mutable, "map::IterMut<'_,P,T>", TIterMut);
    rows!(out, Kind::Mutable, "map::ValuesMut<'_,P,T>", TValuesMut);
    rows!(out, Kind::Mutable, "map::Entry<'_,P,T>", TEntry);
    rows!(out, Kind::Mutable, "map::OccupiedEntry<'_,P,T>", TOcc);
    rows!(out, Kind::Mutable, "map::VacantEntry<'_,P,T>", TVac);
    rows!(out, Kind::Mutable, "trieview::UnionMut<'_,P,T,T>", TUnionMut);
    rows!(out, Kind::Mutable, "trieview::IntersectionMut<'_,P,T,T>", TInterMut);
    rows!(out, Kind::Mutable, "trieview::DifferenceMut<'_,P,T,u32>", TDiffMut);
    rows!(out, Kind::Mutable, "trieview::CoveringDifferenceMut<'_,P,T,u32>", TCovDiffMut);
    out
}

/// `sim aux [--evidence file] [--known file] [--replays dir]`
pub fn cmd_aux(opts: &std::collections::BTreeMap<String, String>) -> i32 {
    let known_path = opts.get("known").cloned().unwrap_or_else(|| "/verif/KNOWN_FINDINGS.txt".into());
    let known = crate::known::load(&known_path);
    let replays = opts.get("replays").cloned().unwrap_or_else(|| "/verif/replays".into());
    let m = matrix();
    let mut new_unsound = vec![];
    let mut known_hit = vec![];
    for r in &m {
        for tr in &r.unsound {
            let short = r.ty.replace(' ', "");
            let short = short.as_str();
            let sig = format!("C14:aux:unsound-auto-trait:{short}:{tr}:{}", r.value);
            if let Some(f) = crate::known::matches(&known, "C14", &sig) {
                known_hit.push((sig, f.text.clone()));
            } else {
                new_unsound.push((sig, format!("{} is {tr} although its value type is {}", r.ty, r.value)));
            }
        }
    }
    for (sig, text) in &known_hit {
        println!("KNOWN-FINDING: property=C14 sig={sig} {text}");
    }
    let mut code = 0;
    if let Some((sig, text)) = new_unsound.first() {
        let _ = std::fs::create_dir_all(&replays);
        let path = format!("{replays}/C14-aux-static-probe.txt");
        let _ = std::fs::write(&path, format!("# replay: /verif/sim/target/release/sim aux\n{}\n", new_unsound.iter().map(|x| format!("{} :: {}", x.0, x.1)).collect::<Vec<_>>().join("\n")));
        println!("violation (auxiliary static probe, not simulation): {sig}: {text}");
        println!("VIOLATION property=C14 replay={path}");
        code = 1;
    }
    println!("aux static probe: {} (type, value type) pairs, {} unsound and unlisted, {} listed", m.len(), new_unsound.len(), known_hit.len());
    if let Some(ev) = opts.get("evidence") {
        let rows: Vec<serde_json::Value> = m.iter().map(|r| serde_json::json!({"type": r.ty, "value_type": r.value, "send": r.send, "sync": r.sync, "unsound": r.unsound})).collect();
        let e = serde_json::json!({
            "engine": "aux_static_probe (build-time auto-trait matrix; outside the simulation technique, not counted as simulation coverage)",
            "wall_s": 0.0,
            "violations": if code == 1 { 1 } else { 0 },
            "coverage": {"evaluations": 0, "distinct_nontrivial": 0, "pairs": m.len(), "matrix": rows, "unsound_unlisted": new_unsound.iter().map(|x| x.0.clone()).collect::<Vec<_>>(), "unsound_listed": known_hit.iter().map(|x| x.0.clone()).collect::<Vec<_>>()}
        });
        let _ = std::fs::write(ev, serde_json::to_string_pretty(&e).unwrap());
    }
    code
}
