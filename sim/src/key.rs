//! Independent bit-string model of prefixes. Nothing in here uses the library's `Prefix` code.
//!
//! All addresses are kept *left-aligned* in a `u128` (bit 127 is the first bit of the address),
//! whatever the width of the concrete prefix type is.

use serde::{Deserialize, Deserializer, Serialize, Serializer};

/// A prefix as passed by a client: address (possibly with host bits) and length.
#[derive(Clone, Copy, PartialEq, Eq, Hash, PartialOrd, Ord)]
pub struct Raw {
    pub addr: u128,
    pub len: u8,
}

/// The identity of a prefix: masked address bits and length. Field order gives the derived `Ord`
/// = ascending by network address, then by length = the documented lexicographic order.
#[derive(Clone, Copy, PartialEq, Eq, Hash, PartialOrd, Ord)]
pub struct Key {
    pub bits: u128,
    pub len: u8,
}

pub fn mask(len: u8) -> u128 {
    if len == 0 {
        0
    } else if len >= 128 {
        !0
    } else {
        !((!0u128) >> len)
    }
}

impl Raw {
    pub fn new(addr: u128, len: u8) -> Self {
        Raw { addr, len }
    }
    pub fn key(self) -> Key {
        Key { bits: self.addr & mask(self.len), len: self.len }
    }
    pub fn has_host_bits(self) -> bool {
        self.addr & !mask(self.len) != 0
    }
}

impl Key {
    pub const ZERO: Key = Key { bits: 0, len: 0 };
    pub fn raw(self) -> Raw {
        Raw { addr: self.bits, len: self.len }
    }
    /// `self` covers `o` (equal counts as covering)
    pub fn covers(self, o: Key) -> bool {
        self.len <= o.len && (o.bits & mask(self.len)) == self.bits
    }
    pub fn bit(self, i: u8) -> bool {
        i < self.len && i < 128 && (self.bits >> (127 - i as u32)) & 1 == 1
    }
    /// the bit at position i of the (unmasked) address bits; false beyond 127
    pub fn addr_bit(bits: u128, i: u8) -> bool {
        i < 128 && (bits >> (127 - i as u32)) & 1 == 1
    }
    pub fn lcp(self, o: Key) -> Key {
        let x = self.bits ^ o.bits;
        let eq = x.leading_zeros().min(128) as u8;
        let len = eq.min(self.len).min(o.len);
        Key { bits: self.bits & mask(len), len }
    }
    pub fn child(self, right: bool) -> Key {
        debug_assert!(self.len < 128);
        let b = if right { 1u128 << (127 - self.len as u32) } else { 0 };
        Key { bits: self.bits | b, len: self.len + 1 }
    }
    pub fn parent(self) -> Option<Key> {
        if self.len == 0 {
            None
        } else {
            let l = self.len - 1;
            Some(Key { bits: self.bits & mask(l), len: l })
        }
    }
    pub fn truncate(self, len: u8) -> Key {
        let l = len.min(self.len);
        Key { bits: self.bits & mask(l), len: l }
    }
}

fn fmt_prefix(addr: u128, len: u8) -> String {
    // print only as many hex digits as needed for the non-zero part
    let s = format!("{:032x}", addr);
    let t = s.trim_end_matches('0');
    let t = if t.is_empty() { "0" } else { t };
    format!("{}/{}", t, len)
}

fn parse_prefix(s: &str) -> Result<(u128, u8), String> {
    let (a, l) = s.split_once('/').ok_or_else(|| format!("bad prefix {s}"))?;
    let len: u8 = l.parse().map_err(|_| format!("bad len {s}"))?;
    let mut digits = a.to_string();
    while digits.len() < 32 {
        digits.push('0');
    }
    let addr = u128::from_str_radix(&digits, 16).map_err(|_| format!("bad addr {s}"))?;
    Ok((addr, len))
}

impl std::fmt::Debug for Raw {
    fn fmt(&self, f: &mut std::fmt::Formatter<'_>) -> std::fmt::Result {
        write!(f, "{}", fmt_prefix(self.addr, self.len))
    }
}
impl std::fmt::Debug for Key {
    fn fmt(&self, f: &mut std::fmt::Formatter<'_>) -> std::fmt::Result {
        write!(f, "{}", fmt_prefix(self.bits, self.len))
    }
}
impl std::fmt::Display for Raw {
    fn fmt(&self, f: &mut std::fmt::Formatter<'_>) -> std::fmt::Result {
        write!(f, "{}", fmt_prefix(self.addr, self.len))
    }
}
impl std::fmt::Display for Key {
    fn fmt(&self, f: &mut std::fmt::Formatter<'_>) -> std::fmt::Result {
        write!(f, "{}", fmt_prefix(self.bits, self.len))
    }
}

impl Serialize for Raw {
    fn serialize<S: Serializer>(&self, s: S) -> Result<S::Ok, S::Error> {
        s.serialize_str(&fmt_prefix(self.addr, self.len))
    }
}
impl<'de> Deserialize<'de> for Raw {
    fn deserialize<D: Deserializer<'de>>(d: D) -> Result<Self, D::Error> {
        let s = String::deserialize(d)?;
        let (addr, len) = parse_prefix(&s).map_err(serde::de::Error::custom)?;
        Ok(Raw { addr, len })
    }
}

#[cfg(test)]
mod test {
    use super::*;
    #[test]
    fn basics() {
        let a = Raw::new(0xC0A8_0000u128 << 96, 16).key();
        let b = Raw::new(0xC0A8_0100u128 << 96, 24).key();
        assert!(a.covers(b));
        assert!(!b.covers(a));
        assert!(a < b);
        assert_eq!(a.lcp(b), a);
        assert!(Key::ZERO.covers(a));
        let c = Raw::new(0xC0A8_8000u128 << 96, 17).key();
        assert!(b < c);
        assert_eq!(b.lcp(c), a);
        assert_eq!(a.child(true), c);
        assert_eq!(c.parent(), Some(a));
        let (x, l) = parse_prefix(&fmt_prefix(b.bits, b.len)).unwrap();
        assert_eq!((x, l), (b.bits, b.len));
        assert_eq!(mask(128), !0);
        assert_eq!(Raw::new(!0, 128).key().lcp(Raw::new(!0, 128).key()).len, 128);
    }
}
