//! C16 (slot partition), C19 (equality), C20 (fault sweeps on clones).

use crate::chk;
use crate::ctx::{Ctx, R};
use crate::exec::{retain_keeps, retain_oracle, World};
use crate::key::{Key, Raw};
use crate::packs::{noisy, probes};
use crate::ptypes::SimPrefix;
use crate::rng::{mix64, Rng};
use crate::truth::{truth_of, Ent, Truth};
use crate::val::{arm_fault, callback_point, Val};
use crate::views::walk;
use prefix_trie::{AsView, AsViewMut, PrefixMap, PrefixSet};
use std::cell::RefCell;

// ------------------------------------------------------------------------------------------- C16

pub fn pack_c16(ctx: &mut Ctx, t: &Truth, hw: usize, canonical: bool, what: &str) -> R {
    for e in &t.walk_errors {
        chk!(ctx, "C16", false, "arena-graph", "{what}: arena graph is not a tree: {e}");
    }
    let n = t.nodes.len();
    let mut in_free = vec![false; n];
    for f in &t.free {
        chk!(ctx, "C16", *f < n, "free-out-of-range", "{what}: free list holds index {f} but the arena has {n} slots");
        if *f >= n {
            continue;
        }
        chk!(ctx, "C16", !in_free[*f], "free-duplicate", "{what}: slot {f} is on the free list twice");
        in_free[*f] = true;
    }
    if !t.free.is_empty() {
        ctx.rare("probe.free list non-empty");
    }
    for i in 0..n {
        chk!(ctx, "C16", !(t.reachable[i] && in_free[i]), "slot-both", "{what}: slot {i} ({}) is part of the tree and on the free list", t.nodes[i].raw);
        chk!(ctx, "C16", t.reachable[i] || in_free[i], "slot-neither:leaked", "{what}: slot {i} ({}) is neither part of the tree nor on the free list ({} slots, {} reachable, {} free)", t.nodes[i].raw, n, t.n_reachable, t.free.len());
    }
    chk!(ctx, "C16", n <= 2 * hw + 2, "unbounded-growth", "{what}: arena has {n} slots but the map never needed more than {hw} nodes at one time");
    if canonical && t.ents.is_empty() {
        chk!(ctx, "C16", t.n_reachable == 1, "emptied-map-keeps-nodes", "{what}: map emptied by remove still has {} nodes in its tree", t.n_reachable);
    }
    Ok(())
}

// ------------------------------------------------------------------------------------------- C19

fn seq(t: &[Ent]) -> Vec<(Raw, u64)> {
    t.iter().map(|e| (e.raw, e.v)).collect()
}

pub fn pack_c19<P: SimPrefix>(ctx: &mut Ctx, w: &mut World<P>) -> R {
    let nm = w.maps.len();
    // all pairs of maps / sets of the world
    for i in 0..nm {
        for j in 0..nm {
            let (a, b) = (&w.maps[i].real, &w.maps[j].real);
            let exp = seq(&w.truths[i].ents) == seq(&w.truths[j].ents);
            let (eq, ne) = ctx.obs("C19", "eq", || (a == b, a != b))?;
            if i != j && exp {
                ctx.rare("probe.two maps of the world equal");
            }
            chk!(ctx, "C19", eq == exp, if exp { "eq:false-negative" } else { "eq:false-positive" }, "maps[{i}] == maps[{j}] is {eq}, but entries are {:?} vs {:?}", w.truths[i].ents, w.truths[j].ents);
            chk!(ctx, "C19", ne == !eq, "ne-inconsistent", "maps[{i}] != maps[{j}] is {ne} while == is {eq}");
        }
    }
    for i in 0..w.sets.len() {
        for j in 0..w.sets.len() {
            let (a, b) = (&w.sets[i].real, &w.sets[j].real);
            let exp = w.truths[nm + i].ents.iter().map(|e| e.raw).collect::<Vec<_>>() == w.truths[nm + j].ents.iter().map(|e| e.raw).collect::<Vec<_>>();
            let eq = ctx.obs("C19", "set.eq", || a == b)?;
            chk!(ctx, "C19", eq == exp, if exp { "set.eq:false-negative" } else { "set.eq:false-positive" }, "sets[{i}] == sets[{j}] is {eq}, but members are {:?} vs {:?}", w.truths[nm + i].ents, w.truths[nm + j].ents);
        }
    }
    // derived operands: same contents / different shape, strict prefix, one more entry, one value
    // changed, one representation changed, empty
    let salt = ctx.salt ^ ctx.step as u64;
    for i in 0..nm {
        if (i + ctx.step) % 2 != 0 {
            continue;
        }
        let t = &w.truths[i];
        let a = &w.maps[i].real;
        let ents = t.ents.clone();
        let pr = probes::<P>(&w.cfg, &ents);
        let r = ctx.obs("C19", "eq(derived)", || {
            let mut out: Vec<(&'static str, bool, bool, bool)> = vec![];
            // rebuilt in another insertion order: fresh canonical shape
            let mut items: Vec<(P, Val)> = ents.iter().map(|e| (P::make(e.raw), Val::new(e.v))).collect();
            Rng::new(salt).shuffle(&mut items);
            let b: PrefixMap<P, Val> = items.into_iter().collect();
            out.push(("same-entries-rebuilt", true, *a == b, b == *a));
            let c = a.clone();
            out.push(("clone", true, *a == c, c == *a));
            // transitivity on a triple of equal maps
            out.push(("transitive(rebuilt,clone)", true, b == c, c == b));
            // reflexive
            #[allow(clippy::eq_op)]
            out.push(("reflexive", true, a == a, b == b));
            if let Some(last) = ents.last() {
                let mut d = a.clone();
                d.remove(&P::make(last.raw));
                out.push(("strict-prefix(last removed)", false, *a == d, d == *a));
                let first = &ents[0];
                let mut d = a.clone();
                d.remove(&P::make(first.raw));
                out.push(("first removed", false, *a == d, d == *a));
                let mut d = a.clone();
                let mid = &ents[(salt % ents.len() as u64) as usize];
                if let Some(v) = d.get_mut(&P::make(mid.raw)) {
                    v.payload ^= 1 << 40;
                }
                out.push(("one value changed", false, *a == d, d == *a));
                if P::KEEPS_HOST && mid.key.len < P::WIDTH {
                    let other = noisy::<P>(mid.key, salt ^ 0x1234);
                    if other != mid.raw {
                        let mut d = a.clone();
                        d.insert(P::make(other), Val::new(mid.v));
                        out.push(("one representation changed (host bits)", false, *a == d, d == *a));
                    }
                }
            }
            // one more entry (after the last / anywhere)
            if let Some(extra) = pr.iter().rev().find(|k| !ents.iter().any(|e| e.key == **k)) {
                let mut d = a.clone();
                d.insert(P::make(extra.raw()), Val::new(7));
                out.push(("one additional entry", false, *a == d, d == *a));
            }
            let e: PrefixMap<P, Val> = PrefixMap::new();
            out.push(("empty map", ents.is_empty(), *a == e, e == *a));
            out
        })?;
        for (name, exp, ab, ba) in r {
            ctx.rare("probe.derived equality operand");
            chk!(ctx, "C19", ab == exp && ba == exp, format!("eq-derived:{name}"), "map {:?} compared with `{name}`: a == b is {ab}, b == a is {ba}, expected {exp}", ents);
        }
    }
    for i in 0..w.sets.len() {
        if (i + ctx.step) % 2 != 0 {
            continue;
        }
        let ents = w.truths[nm + i].ents.clone();
        let a = &w.sets[i].real;
        let r = ctx.obs("C19", "set.eq(derived)", || {
            let mut out: Vec<(&'static str, bool, bool, bool)> = vec![];
            let mut items: Vec<P> = ents.iter().map(|e| P::make(e.raw)).collect();
            Rng::new(salt).shuffle(&mut items);
            let b: PrefixSet<P> = items.into_iter().collect();
            out.push(("set same-members-rebuilt", true, *a == b, b == *a));
            if let Some(last) = ents.last() {
                let mut d = a.clone();
                d.remove(&P::make(last.raw));
                out.push(("set strict-prefix(last removed)", false, *a == d, d == *a));
            }
            let e: PrefixSet<P> = PrefixSet::new();
            out.push(("empty set", ents.is_empty(), *a == e, e == *a));
            out
        })?;
        for (name, exp, ab, ba) in r {
            chk!(ctx, "C19", ab == exp && ba == exp, format!("eq-derived:{name}"), "set {:?} compared with `{name}`: a == b is {ab}, b == a is {ba}, expected {exp}", ents);
        }
    }
    Ok(())
}

// ------------------------------------------------------------------------------------------- C20

/// the map must be a well-formed, size-consistent, slot-consistent trie holding `exp`
pub fn valid_after_fault<P: SimPrefix>(ctx: &mut Ctx, m: &PrefixMap<P, Val>, exp: &[Ent], what: &str) -> R {
    let t = truth_of(&m.verif_snapshot());
    let core = |v: &[Ent]| v.iter().map(|e| (e.key, e.v)).collect::<Vec<_>>();
    chk!(ctx, "C20", core(&t.ents) == core(exp), format!("after-panic:contents:{what}"), "after a panicking callback in {what}: entries {:?}, expected {:?}", t.ents, exp);
    chk!(ctx, "C20", m.len() == t.ents.len() && m.is_empty() == t.ents.is_empty(), format!("after-panic:size:{what}"), "after a panicking callback in {what}: len() = {} but {} entries", m.len(), t.ents.len());
    let (_, errs) = ctx.obs("C20", "walk", || walk(m.view(), 2 * t.nodes.len() + 4))?;
    chk!(ctx, "C20", errs.is_empty() && t.walk_errors.is_empty(), format!("after-panic:ill-formed:{what}"), "after a panicking callback in {what}: {:?} {:?}", errs, t.walk_errors);
    let mut in_free = vec![false; t.nodes.len()];
    for f in &t.free {
        if *f < in_free.len() {
            in_free[*f] = true;
        }
    }
    let bad = (0..t.nodes.len()).find(|i| t.reachable[*i] == in_free[*i]);
    chk!(ctx, "C20", bad.is_none(), format!("after-panic:slots:{what}"), "after a panicking callback in {what}: slot {:?} is both / neither in the tree and on the free list", bad);
    Ok(())
}

/// public operations no other pack calls: Debug formatting, default (empty) iterators
fn pack_c20_misc<P: SimPrefix>(ctx: &mut Ctx, w: &mut World<P>) -> R {
    use prefix_trie::map::{Iter, IterMut};
    for i in 0..w.maps.len() {
        let m = &w.maps[i].real;
        let n = ctx.obs("C20", "Debug for PrefixMap", || format!("{:?}", m).len())?;
        let _ = n;
        ctx.obs("C20", "Debug for TrieView", || {
            let v = m.view();
            let a = format!("{:?}", v).len();
            let b = v.left().map(|l| format!("{:?} {:?}", l, l.prefix_value().map(|x| x.1.payload)).len()).unwrap_or(0);
            a + b
        })?;
        let m = &mut w.maps[i].real;
        ctx.obs("C20", "Debug for TrieViewMut", || format!("{:?}", m.view_mut()).len())?;
    }
    for i in 0..w.sets.len() {
        let s = &w.sets[i].real;
        ctx.obs("C20", "Debug for PrefixSet", || format!("{:?}", s).len())?;
    }
    let empties = ctx.obs("C20", "default iterators", || {
        let mut n = 0;
        n += Iter::<P, Val>::default().count();
        n += IterMut::<P, Val>::default().count();
        let mut it = Iter::<P, Val>::default();
        n += it.next().is_some() as usize + it.next().is_some() as usize;
        n
    })?;
    chk!(ctx, "C20", empties == 0, "default-iterator-yields", "a default-constructed iterator yielded {empties} items");
    Ok(())
}

pub fn pack_c20<P: SimPrefix>(ctx: &mut Ctx, w: &mut World<P>) -> R {
    if !ctx.is("C20") || ctx.step % 4 != 0 {
        return Ok(());
    }
    pack_c20_misc(ctx, w)?;
    let salt = mix64(ctx.salt ^ ctx.step as u64);
    for i in 0..w.maps.len() {
        let before = w.truths[i].ents.clone();
        let n = before.len();
        if n > 24 {
            continue;
        }
        // (b) a panic at every invocation index of the retain predicate
        let keep = (salt % 9) as u8;
        for k in 0..n as u32 {
            let mut c = ctx.mutate("clone", || w.maps[i].real.clone())?;
            let log: RefCell<Vec<(Raw, u64, bool)>> = RefCell::new(vec![]);
            arm_fault(Some(k));
            let r = ctx.mutate_faulty("retain", || {
                c.retain(|p, v| {
                    callback_point();
                    let raw = p.raw();
                    let kp = retain_keeps(salt, raw.key(), keep);
                    log.borrow_mut().push((raw, v.payload, kp));
                    kp
                })
            });
            arm_fault(None);
            let r = r?;
            ctx.stats.hit("fault.enumerated retain panic index");
            if r.is_some() {
                // predicate was called fewer than k+1 times: C10's business, nothing to check here
                continue;
            }
            let log = log.into_inner();
            retain_oracle(ctx, &before, &log, true, &truth_of(&c.verif_snapshot()).ents, "retain")?;
            let rejected: Vec<Key> = log.iter().filter(|l| !l.2).map(|l| l.0.key()).collect();
            let exp: Vec<Ent> = before.iter().filter(|e| !rejected.contains(&e.key)).cloned().collect();
            valid_after_fault(ctx, &c, &exp, "retain")?;
            // and the map stays usable
            let extra = P::make(noisy::<P>(Key::ZERO, salt));
            ctx.mutate("insert-after-panic", || {
                c.insert(extra, Val::new(1));
            })?;
            ctx.mutate("drop", move || drop(c))?;
        }
        // entry closures: the callback panics at its (only) invocation
        let pr = probes::<P>(&w.cfg, &before);
        for j in 0..4u64 {
            if pr.is_empty() {
                break;
            }
            let q = pr[(mix64(salt ^ j) % pr.len() as u64) as usize];
            for op in 0..7 {
                let mut c = ctx.mutate("clone", || w.maps[i].real.clone())?;
                let p = P::make(noisy::<P>(q, salt));
                arm_fault(Some(0));
                let name = ["or_insert_with", "and_modify", "or_default", "VacantEntry::insert_with", "VacantEntry::default", "OccupiedEntry::remove + or_insert_with", "OccupiedEntry::remove + or_default"][op];
                let r = ctx.mutate_faulty(name, || match op {
                    0 => {
                        c.entry(p).or_insert_with(|| {
                            callback_point();
                            Val::new(5)
                        });
                    }
                    1 => {
                        let _ = c.entry(p).and_modify(|x| {
                            callback_point();
                            x.payload = 6;
                        });
                    }
                    2 => {
                        c.entry(p).or_default();
                    }
                    3 => {
                        if let prefix_trie::map::Entry::Vacant(e) = c.entry(p) {
                            e.insert_with(|| {
                                callback_point();
                                Val::new(8)
                            });
                        }
                    }
                    4 => {
                        if let prefix_trie::map::Entry::Vacant(e) = c.entry(p) {
                            e.default();
                        }
                    }
                    5 => {
                        if let prefix_trie::map::Entry::Occupied(mut e) = c.entry(p) {
                            e.remove();
                            prefix_trie::map::Entry::Occupied(e).or_insert_with(|| {
                                callback_point();
                                Val::new(9)
                            });
                        }
                    }
                    _ => {
                        if let prefix_trie::map::Entry::Occupied(mut e) = c.entry(p) {
                            e.remove();
                            prefix_trie::map::Entry::Occupied(e).or_default();
                        }
                    }
                });
                arm_fault(None);
                let r = r?;
                if r.is_none() {
                    ctx.stats.hit("fault.enumerated entry-closure panic");
                    if op >= 5 {
                        // the value was taken out through the handle before the panicking call
                        let exp: Vec<Ent> = before.iter().filter(|e| e.key != q).cloned().collect();
                        valid_after_fault(ctx, &c, &exp, name)?;
                    } else {
                        valid_after_fault(ctx, &c, &before, name)?;
                    }
                }
                ctx.mutate("drop", move || drop(c))?;
            }
        }
    }
    for i in 0..w.sets.len() {
        let before = w.truths[w.maps.len() + i].ents.clone();
        let n = before.len();
        if n > 24 {
            continue;
        }
        let keep = (salt % 9) as u8;
        for k in 0..n as u32 {
            let mut c = ctx.mutate("set.clone", || w.sets[i].real.clone())?;
            let log: RefCell<Vec<(Raw, u64, bool)>> = RefCell::new(vec![]);
            arm_fault(Some(k));
            let r = ctx.mutate_faulty("set.retain", || {
                c.retain(|p| {
                    callback_point();
                    let raw = p.raw();
                    let kp = retain_keeps(salt, raw.key(), keep);
                    log.borrow_mut().push((raw, 0, kp));
                    kp
                })
            });
            arm_fault(None);
            let r = r?;
            ctx.stats.hit("fault.enumerated retain panic index");
            if r.is_some() {
                continue;
            }
            let log = log.into_inner();
            let t = truth_of(&c.verif_snapshot());
            retain_oracle(ctx, &before, &log, true, &t.ents, "set.retain")?;
            chk!(ctx, "C20", c.len() == t.ents.len(), "after-panic:size:set.retain", "after a panicking predicate in set.retain: len() = {} but {} members", c.len(), t.ents.len());
        }
    }
    Ok(())
}
