//! Run context: violations, panic capture, fuel, statistics.

use std::cell::RefCell;
use std::collections::{BTreeMap, BTreeSet};
use std::panic::{catch_unwind, AssertUnwindSafe};

#[derive(Clone, Debug, PartialEq, Eq)]
pub struct Violation {
    pub property: String,
    /// short normalised class; the shrinker keeps this constant
    pub sig: String,
    pub step: usize,
    pub detail: String,
}

#[derive(Clone, Debug)]
pub enum Abort {
    Violation(Violation),
    /// something went wrong that belongs to another property than the one under check; the run
    /// stops, is counted, and is *not* reported as a violation of the property under check
    Foreign(String),
}

pub type R<T = ()> = Result<T, Abort>;

thread_local! {
    static LAST_PANIC: RefCell<Option<(String, String)>> = const { RefCell::new(None) };
    static QUIET: std::cell::Cell<bool> = const { std::cell::Cell::new(false) };
}

/// Install a panic hook that records message and location thread-locally and stays silent on
/// simulator worker threads.
pub fn install_panic_hook() {
    let default = std::panic::take_hook();
    std::panic::set_hook(Box::new(move |info| {
        let msg = if let Some(s) = info.payload().downcast_ref::<&str>() {
            s.to_string()
        } else if let Some(s) = info.payload().downcast_ref::<String>() {
            s.clone()
        } else {
            "<non-string panic payload>".to_string()
        };
        let loc = info.location().map(|l| format!("{}:{}", l.file(), l.line())).unwrap_or_default();
        LAST_PANIC.with(|p| *p.borrow_mut() = Some((msg, loc)));
        if !QUIET.with(|q| q.get()) {
            default(info);
        }
    }));
}
pub fn set_quiet(q: bool) {
    QUIET.with(|c| c.set(q))
}
pub fn take_last_panic() -> Option<(String, String)> {
    LAST_PANIC.with(|p| p.borrow_mut().take())
}

#[derive(Clone, Debug)]
pub struct PanicInfo {
    pub msg: String,
    pub loc: String,
}
impl PanicInfo {
    pub fn injected(&self) -> bool {
        self.msg == crate::val::INJECTED
    }
    pub fn fuel(&self) -> bool {
        self.msg == prefix_trie::verif_hooks::FUEL_EXHAUSTED
    }
    /// normalised class for signatures
    pub fn class(&self) -> String {
        if self.fuel() {
            return "fuel-exhausted".into();
        }
        let m = &self.msg;
        let c = if m.contains("overflow") {
            "overflow"
        } else if m.contains("unwrap()` on a `None`") {
            "unwrap-none"
        } else if m.contains("out of bounds") || m.contains("out of range") {
            "index-oob"
        } else if m.contains("unreachable") {
            "unreachable"
        } else if m.contains("unwrap()` on an `Err`") {
            "unwrap-err"
        } else if m.contains("already borrowed") {
            "refcell"
        } else {
            "other"
        };
        // location: file name only (line numbers move under refactoring)
        let file = self.loc.rsplit('/').next().unwrap_or("").split(':').next().unwrap_or("");
        format!("{c}@{file}")
    }
}

/// Run a closure that calls into the library with a fuel budget, catching unwinds.
pub fn guarded<T>(fuel: u64, f: impl FnOnce() -> T) -> Result<T, PanicInfo> {
    prefix_trie::verif_hooks::set_fuel(fuel);
    let r = catch_unwind(AssertUnwindSafe(f));
    prefix_trie::verif_hooks::set_fuel(u64::MAX);
    match r {
        Ok(v) => Ok(v),
        Err(_) => {
            let (msg, loc) = take_last_panic().unwrap_or_else(|| ("<unknown>".into(), String::new()));
            Err(PanicInfo { msg, loc })
        }
    }
}

#[derive(Clone, Debug, Default)]
pub struct Stats {
    pub counters: BTreeMap<&'static str, u64>,
    pub states: BTreeSet<u64>,
    pub steps: u64,
    pub ticks: u64,
    pub changing_steps: u64,
}
impl Stats {
    pub fn hit(&mut self, k: &'static str) {
        *self.counters.entry(k).or_insert(0) += 1;
    }
    pub fn add(&mut self, k: &'static str, n: u64) {
        *self.counters.entry(k).or_insert(0) += n;
    }
    pub fn merge(&mut self, o: &Stats) {
        for (k, v) in &o.counters {
            *self.counters.entry(k).or_insert(0) += v;
        }
        self.steps += o.steps;
        self.ticks += o.ticks;
        self.changing_steps += o.changing_steps;
        if self.states.len() < 2_000_000 {
            self.states.extend(o.states.iter().copied());
        }
    }
}

pub struct Ctx {
    pub prop: String,
    pub step: usize,
    pub stats: Stats,
    /// per-run salt for check-time derived choices (probes, view roots); from the script seed
    pub salt: u64,
    /// fuel per library call
    pub fuel: u64,
    /// signatures listed in KNOWN_FINDINGS that were hit in this run
    pub known_hits: Vec<String>,
    pub known: std::sync::Arc<Vec<crate::known::Finding>>,
    /// number of property-relevant rare events seen in this run (for the non-trivial rule)
    pub rare: u64,
    /// further properties whose comparisons are evaluated (threaded engine: C13, C14, C01)
    pub also: Vec<&'static str>,
}

impl Ctx {
    pub fn viol(&self, property: &str, sig: impl Into<String>, detail: impl Into<String>) -> Abort {
        Abort::Violation(Violation { property: property.to_string(), sig: sig.into(), step: self.step, detail: detail.into() })
    }
    /// does the pack of `p` run under the property being checked?
    pub fn wants(&self, p: &str) -> bool {
        self.prop == p || self.prop == "C20"
    }
    pub fn is(&self, p: &str) -> bool {
        self.prop == p || self.also.iter().any(|a| *a == p)
    }
    pub fn hit(&mut self, k: &'static str) {
        self.stats.hit(k)
    }
    pub fn rare(&mut self, k: &'static str) {
        self.stats.hit(k);
        self.rare += 1;
    }
    /// Library call made by an *observer* of property `p`: a panic is a violation of `p`.
    pub fn obs<T>(&mut self, p: &str, what: &str, f: impl FnOnce() -> T) -> R<T> {
        let cur = self.prop.clone();
        let p: &str = if p == "*" { &cur } else { p };
        match guarded(self.fuel, f) {
            Ok(v) => Ok(v),
            Err(pi) => Err(self.viol(p, format!("{p}:panic:{what}:{}", pi.class()), format!("{what} panicked: {} at {}", pi.msg, pi.loc))),
        }
    }
    /// Library call made by a *mutator* step: an unexpected panic is a C20 event.
    pub fn mutate<T>(&mut self, what: &str, f: impl FnOnce() -> T) -> R<T> {
        match guarded(self.fuel, f) {
            Ok(v) => Ok(v),
            Err(pi) => Err(self.viol("C20", format!("C20:panic:{what}:{}", pi.class()), format!("{what} panicked: {} at {}", pi.msg, pi.loc))),
        }
    }
    /// Library call during which an injected callback panic may fire.
    pub fn mutate_faulty<T>(&mut self, what: &str, f: impl FnOnce() -> T) -> R<Option<T>> {
        match guarded(self.fuel, f) {
            Ok(v) => Ok(Some(v)),
            Err(pi) if pi.injected() => {
                self.stats.hit("fault.panic@k fired");
                Ok(None)
            }
            Err(pi) => Err(self.viol("C20", format!("C20:panic:{what}:{}", pi.class()), format!("{what} panicked: {} at {}", pi.msg, pi.loc))),
        }
    }
}

/// Decide what a violation means under the property being checked.
pub fn classify(prop: &str, a: Abort) -> Abort {
    match a {
        Abort::Violation(mut v) => {
            if v.property == prop {
                Abort::Violation(v)
            } else if prop == "C20" && (v.sig.contains(":panic:") || v.sig.contains(":diverge:")) {
                // every panic / divergence anywhere is C20's business
                let tail = v.sig.splitn(2, ':').nth(1).unwrap_or("").to_string();
                v.sig = format!("C20:{tail}");
                v.property = "C20".into();
                Abort::Violation(v)
            } else {
                Abort::Foreign(format!("{} (belongs to {})", v.sig, v.property))
            }
        }
        f => f,
    }
}
