//! The only source of randomness of the simulator: SplitMix64 seeded from VERIF_SEED.

#[derive(Clone, Debug)]
pub struct Rng(pub u64);

pub fn mix64(mut z: u64) -> u64 {
    z = z.wrapping_add(0x9E37_79B9_7F4A_7C15);
    z = (z ^ (z >> 30)).wrapping_mul(0xBF58_476D_1CE4_E5B9);
    z = (z ^ (z >> 27)).wrapping_mul(0x94D0_49BB_1331_11EB);
    z ^ (z >> 31)
}

/// Stable string hash (FNV-1a), used to derive per-property streams.
pub fn strhash(s: &str) -> u64 {
    let mut h: u64 = 0xcbf2_9ce4_8422_2325;
    for b in s.bytes() {
        h ^= b as u64;
        h = h.wrapping_mul(0x100_0000_01b3);
    }
    h
}

pub fn run_seed(verif_seed: u64, property: &str, run: u64) -> u64 {
    mix64(mix64(verif_seed ^ strhash(property)).wrapping_add(mix64(run.wrapping_mul(0x2545_F491_4F6C_DD1D))))
}

impl Rng {
    pub fn new(seed: u64) -> Self {
        Rng(seed)
    }
    pub fn next(&mut self) -> u64 {
        self.0 = self.0.wrapping_add(0x9E37_79B9_7F4A_7C15);
        let mut z = self.0;
        z = (z ^ (z >> 30)).wrapping_mul(0xBF58_476D_1CE4_E5B9);
        z = (z ^ (z >> 27)).wrapping_mul(0x94D0_49BB_1331_11EB);
        z ^ (z >> 31)
    }
    pub fn u128(&mut self) -> u128 {
        ((self.next() as u128) << 64) | self.next() as u128
    }
    /// uniform in 0..n (n > 0)
    pub fn below(&mut self, n: u64) -> u64 {
        debug_assert!(n > 0);
        self.next() % n
    }
    pub fn range(&mut self, lo: u64, hi_incl: u64) -> u64 {
        lo + self.below(hi_incl - lo + 1)
    }
    pub fn chance(&mut self, num: u64, den: u64) -> bool {
        self.below(den) < num
    }
    pub fn pick<'a, T>(&mut self, xs: &'a [T]) -> &'a T {
        &xs[self.below(xs.len() as u64) as usize]
    }
    /// weighted choice; returns index
    pub fn weighted(&mut self, w: &[u32]) -> usize {
        let total: u64 = w.iter().map(|x| *x as u64).sum();
        let mut r = self.below(total.max(1));
        for (i, x) in w.iter().enumerate() {
            if r < *x as u64 {
                return i;
            }
            r -= *x as u64;
        }
        w.len() - 1
    }
    pub fn shuffle<T>(&mut self, xs: &mut [T]) {
        for i in (1..xs.len()).rev() {
            let j = self.below(i as u64 + 1) as usize;
            xs.swap(i, j);
        }
    }
    pub fn fork(&mut self) -> Rng {
        Rng(mix64(self.next()))
    }
}
