//! C05–C08: union / intersection / difference / covering difference of two views against a
//! trivially simple model over the views' own entries.

use crate::chk;
use crate::ctx::{Ctx, R};
use crate::exec::{two_mut, World};
use crate::key::{Key, Raw};
use crate::packs::{drain, noisy, probes};
use crate::ptypes::SimPrefix;
use crate::rng::Rng;
use crate::script::{Nav, Opnd};
use crate::truth::{lpm, Ent};
use crate::val::SimVal;
use crate::views::{navigate, navigate_mut, view_ents};
use prefix_trie::trieview::UnionItem;
use prefix_trie::{AsView, AsViewMut, TrieView, TrieViewMut};

/// normalised item of a set operation: key, raw, tag (0 both, 1 left, 2 right), values, annotations
#[derive(Clone, Debug, PartialEq)]
pub struct SItem {
    pub raw: Raw,
    pub tag: u8,
    pub l: Option<u64>,
    pub r: Option<u64>,
    /// LPM annotation of the other side (key, value)
    pub ann: Option<(Raw, u64)>,
}
impl SItem {
    pub fn core(&self) -> (Key, u8, Option<u64>, Option<u64>) {
        (self.raw.key(), self.tag, self.l, self.r)
    }
}

pub fn model_union(ea: &[Ent], eb: &[Ent]) -> Vec<SItem> {
    let mut keys: Vec<Key> = ea.iter().map(|e| e.key).chain(eb.iter().map(|e| e.key)).collect();
    keys.sort();
    keys.dedup();
    keys.into_iter()
        .map(|k| {
            let a = ea.iter().find(|e| e.key == k);
            let b = eb.iter().find(|e| e.key == k);
            match (a, b) {
                (Some(a), Some(b)) => SItem { raw: a.raw, tag: 0, l: Some(a.v), r: Some(b.v), ann: None },
                (Some(a), None) => SItem { raw: a.raw, tag: 1, l: Some(a.v), r: None, ann: lpm(eb, k).map(|e| (e.raw, e.v)) },
                (None, Some(b)) => SItem { raw: b.raw, tag: 2, l: None, r: Some(b.v), ann: lpm(ea, k).map(|e| (e.raw, e.v)) },
                _ => unreachable!(),
            }
        })
        .collect()
}
pub fn model_intersection(ea: &[Ent], eb: &[Ent]) -> Vec<SItem> {
    ea.iter()
        .filter_map(|a| eb.iter().find(|b| b.key == a.key).map(|b| SItem { raw: a.raw, tag: 0, l: Some(a.v), r: Some(b.v), ann: None }))
        .collect()
}
pub fn model_difference(ea: &[Ent], eb: &[Ent]) -> Vec<SItem> {
    ea.iter()
        .filter(|a| !eb.iter().any(|b| b.key == a.key))
        .map(|a| SItem { raw: a.raw, tag: 1, l: Some(a.v), r: None, ann: lpm(eb, a.key).map(|e| (e.raw, e.v)) })
        .collect()
}
pub fn model_covering_difference(ea: &[Ent], eb: &[Ent]) -> Vec<SItem> {
    ea.iter().filter(|a| !eb.iter().any(|b| b.key.covers(a.key))).map(|a| SItem { raw: a.raw, tag: 1, l: Some(a.v), r: None, ann: None }).collect()
}

fn union_item<P: SimPrefix, L: SimVal, Rr: SimVal>(it: &UnionItem<'_, P, L, Rr>) -> (SItem, bool) {
    // also exercise the accessors and check them against the variant
    let (s, acc_ok) = match it {
        UnionItem::Both { prefix, left, right } => {
            let ok = it.both().map(|(p, l, r)| (p.raw(), l.snap(), r.snap())) == Some((prefix.raw(), left.snap(), right.snap()))
                && it.left().map(|(p, l)| (p.raw(), l.snap())) == Some((prefix.raw(), left.snap()))
                && it.right().map(|(p, r)| (p.raw(), r.snap())) == Some((prefix.raw(), right.snap()));
            (SItem { raw: prefix.raw(), tag: 0, l: Some(left.snap()), r: Some(right.snap()), ann: None }, ok)
        }
        UnionItem::Left { prefix, left, right } => {
            let ann = right.map(|(p, v)| (p.raw(), v.snap()));
            let ok = it.both().is_none() && it.left().map(|(p, l)| (p.raw(), l.snap())) == Some((prefix.raw(), left.snap())) && it.right().map(|(p, r)| (p.raw(), r.snap())) == ann;
            (SItem { raw: prefix.raw(), tag: 1, l: Some(left.snap()), r: None, ann }, ok)
        }
        UnionItem::Right { prefix, left, right } => {
            let ann = left.map(|(p, v)| (p.raw(), v.snap()));
            let ok = it.both().is_none() && it.right().map(|(p, r)| (p.raw(), r.snap())) == Some((prefix.raw(), right.snap())) && it.left().map(|(p, l)| (p.raw(), l.snap())) == ann;
            (SItem { raw: prefix.raw(), tag: 2, l: None, r: Some(right.snap()), ann }, ok)
        }
    };
    let ok = acc_ok && it.prefix().raw() == s.raw;
    (s, ok)
}

fn cores(v: &[SItem]) -> Vec<(Key, u8, Option<u64>, Option<u64>)> {
    v.iter().map(|x| x.core()).collect()
}
fn anns(v: &[SItem]) -> Vec<(Key, Option<(Key, u64)>)> {
    v.iter().filter(|x| x.tag != 0).map(|x| (x.raw.key(), x.ann.map(|a| (a.0.key(), a.1)))).collect()
}

/// which relative position of the two view roots is this?
fn relation(pa: Key, pb: Key) -> &'static str {
    if pa == pb {
        "probe.setop roots equal"
    } else if pa.covers(pb) {
        "probe.setop left root above right root"
    } else if pb.covers(pa) {
        "probe.setop right root above left root"
    } else {
        "probe.setop roots disjoint"
    }
}

/// read-only operations of one pair of views
pub fn check_ro<P: SimPrefix, L: SimVal, Rr: SimVal>(ctx: &mut Ctx, a: &TrieView<'_, P, L>, b: &TrieView<'_, P, Rr>, cap: usize) -> R {
    let (pa, pb, ea, eb) = ctx.obs("*", "view", || (a.prefix().raw().key(), b.prefix().raw().key(), view_ents(a, cap), view_ents(b, cap)))?;
    let rel = relation(pa, pb);
    if !ea.is_empty() && !eb.is_empty() {
        ctx.rare(rel);
    } else {
        ctx.hit("probe.setop with an empty operand");
    }
    let desc = format!("a = view {pa} {:?}, b = view {pb} {:?}", ea, eb);
    let relsig = &rel["probe.setop ".len()..].replace(' ', "-");
    let cap2 = 2 * cap + 8;
    // ---- union
    if ctx.wants("C05") || ctx.wants("C08") || ctx.wants("C18") {
        let (got, f, c, acc) = ctx.obs("C05", "union", || {
            let mut it = a.union(b.clone());
            let (v, f, c) = drain(&mut it, cap2);
            let mut acc = true;
            let v: Vec<SItem> = v
                .iter()
                .map(|x| {
                    let (s, ok) = union_item(x);
                    acc &= ok;
                    s
                })
                .collect();
            (v, f, c, acc)
        })?;
        let exp = model_union(&ea, &eb);
        chk!(ctx, "C05", !c, "diverge:union", "union yields more than {cap2} items; {desc}");
        chk!(ctx, "C05", cores(&got) == cores(&exp), format!("union:items:{relsig}"), "union yields {:?}, expected {:?}; {desc}", got, exp);
        chk!(ctx, "C05", f, "fused:union", "union yields an item after None; {desc}");
        if ctx.is("C05") && exp.len() >= 2 {
            let jj = exp.len() / 2;
            let r = ctx.obs("C05", "union(consumers)", || crate::packs::consumer_checks(|| a.union(b.clone()), |x| union_item(&x).0.core(), &cores(&exp), jj, 1))?;
            if let Err((m, d)) = r {
                chk!(ctx, "C05", false, format!("consumer:union:{m}"), "union: {d}; {desc}");
            }
        }
        if cores(&got) == cores(&exp) {
            let ok = got.iter().zip(exp.iter()).all(|(g, e)| g.raw == e.raw || (g.tag == 0 && eb.iter().any(|x| x.raw == g.raw)));
            chk!(ctx, "C05", ok, "union:stored-prefix", "union yields prefixes {:?}, stored as {:?}; {desc}", got.iter().map(|x| x.raw).collect::<Vec<_>>(), exp.iter().map(|x| x.raw).collect::<Vec<_>>());
        }
        chk!(ctx, "C08", acc, "union:accessors", "UnionItem::left()/right()/both()/prefix() disagree with the item's fields; {desc}");
        if cores(&got) == cores(&exp) {
            if anns(&exp).iter().any(|x| x.1.is_some()) {
                ctx.rare("probe.union item with a covering match on the other side");
            }
            chk!(ctx, "C08", anns(&got) == anns(&exp), format!("union:lpm:{relsig}"), "union LPM annotations {:?}, true longest-prefix matches in the other view {:?}; {desc}", anns(&got), anns(&exp));
            for (g, e) in got.iter().zip(exp.iter()) {
                if g.tag == 0 {
                    let other = eb.iter().find(|x| x.key == g.raw.key()).map(|x| x.raw);
                    chk!(ctx, "C18", g.raw == e.raw || Some(g.raw) == other, "repr:union", "union Both item reports prefix {}, stored representations are {} / {:?}", g.raw, e.raw, other);
                } else {
                    chk!(ctx, "C18", g.raw == e.raw, "repr:union", "union item reports prefix {}, stored representation is {}", g.raw, e.raw);
                    if let (Some(ga), Some(xa)) = (g.ann, e.ann) {
                        chk!(ctx, "C18", ga.0 == xa.0, "repr:union-lpm", "union LPM annotation reports prefix {}, stored representation is {}", ga.0, xa.0);
                    }
                }
            }
        }
    }
    // keys stored in both operands under different representations (C18: still one key)
    let twice: Vec<Key> = ea.iter().filter(|x| eb.iter().any(|y| y.key == x.key && y.raw != x.raw)).map(|x| x.key).collect();
    if !twice.is_empty() {
        ctx.rare("probe.setop on operands storing one network under two representations");
    }
    if ctx.is("C18") && !twice.is_empty() {
        let (u, i, d, cd) = ctx.obs("C18", "setops", || {
            (
                a.union(b.clone()).take(cap2).map(|x| union_item(&x).0).collect::<Vec<_>>(),
                a.intersection(b.clone()).take(cap2).map(|(p, _, _)| p.raw().key()).collect::<Vec<_>>(),
                a.difference(b.clone()).take(cap2).map(|x| x.prefix.raw().key()).collect::<Vec<_>>(),
                a.covering_difference(b.clone()).take(cap2).map(|(p, _)| p.raw().key()).collect::<Vec<_>>(),
            )
        })?;
        for k in &twice {
            let n: Vec<&SItem> = u.iter().filter(|x| x.raw.key() == *k).collect();
            chk!(ctx, "C18", n.len() == 1 && n[0].tag == 0, "host-bits-matter:union", "network {k} is stored in both operands (with different host bits) but union yields {:?}; {desc}", n);
            chk!(ctx, "C18", i.iter().filter(|x| *x == k).count() == 1, "host-bits-matter:intersection", "network {k} is stored in both operands (with different host bits) but intersection yields it {} times; {desc}", i.iter().filter(|x| *x == k).count());
            chk!(ctx, "C18", !d.contains(k) && !cd.contains(k), "host-bits-matter:difference", "network {k} is stored in both operands (with different host bits) but (covering) difference yields it; {desc}");
        }
    }
    // ---- intersection
    if ctx.wants("C06") || ctx.wants("C18") {
        let (got, f, c) = ctx.obs("C06", "intersection", || {
            let mut it = a.intersection(b.clone());
            let (v, f, c) = drain(&mut it, cap2);
            (v.iter().map(|(p, l, r)| SItem { raw: p.raw(), tag: 0, l: Some(l.snap()), r: Some(r.snap()), ann: None }).collect::<Vec<_>>(), f, c)
        })?;
        let exp = model_intersection(&ea, &eb);
        if !exp.is_empty() {
            ctx.rare("probe.non-empty intersection");
        }
        chk!(ctx, "C06", !c, "diverge:intersection", "intersection yields more than {cap2} items; {desc}");
        chk!(ctx, "C06", cores(&got) == cores(&exp), format!("intersection:items:{relsig}"), "intersection yields {:?}, expected {:?}; {desc}", got, exp);
        chk!(ctx, "C06", f, "fused:intersection", "intersection yields an item after None; {desc}");
        if ctx.is("C06") && exp.len() >= 2 {
            let jj = exp.len() / 2;
            let r = ctx.obs("C06", "intersection(consumers)", || crate::packs::consumer_checks(|| a.intersection(b.clone()), |(p, l, r)| (p.raw().key(), l.snap(), r.snap()), &exp.iter().map(|x| (x.raw.key(), x.l.unwrap_or(0), x.r.unwrap_or(0))).collect::<Vec<_>>(), jj, 1))?;
            if let Err((m, d)) = r {
                chk!(ctx, "C06", false, format!("consumer:intersection:{m}"), "intersection: {d}; {desc}");
            }
        }
        for g in &got {
            let (ra, rb) = (ea.iter().find(|x| x.key == g.raw.key()).map(|x| x.raw), eb.iter().find(|x| x.key == g.raw.key()).map(|x| x.raw));
            chk!(ctx, "C18", Some(g.raw) == ra || Some(g.raw) == rb, "repr:intersection", "intersection item reports prefix {}, stored representations are {:?} / {:?}", g.raw, ra, rb);
        }
    }
    // ---- difference
    if ctx.wants("C07") || ctx.wants("C08") || ctx.wants("C18") {
        let (got, f, c) = ctx.obs("C07", "difference", || {
            let mut it = a.difference(b.clone());
            let (v, f, c) = drain(&mut it, cap2);
            (v.iter().map(|d| SItem { raw: d.prefix.raw(), tag: 1, l: Some(d.value.snap()), r: None, ann: d.right.map(|(p, v)| (p.raw(), v.snap())) }).collect::<Vec<_>>(), f, c)
        })?;
        let exp = model_difference(&ea, &eb);
        if exp.len() < ea.len() && !exp.is_empty() {
            ctx.rare("probe.difference removes some but not all");
        }
        chk!(ctx, "C07", !c, "diverge:difference", "difference yields more than {cap2} items; {desc}");
        chk!(ctx, "C07", cores(&got) == cores(&exp), format!("difference:items:{relsig}"), "difference yields {:?}, expected {:?}; {desc}", got, exp);
        chk!(ctx, "C07", f, "fused:difference", "difference yields an item after None; {desc}");
        if ctx.is("C07") && exp.len() >= 2 {
            let jj = exp.len() / 2;
            let r = ctx.obs("C07", "difference(consumers)", || crate::packs::consumer_checks(|| a.difference(b.clone()), |d| (d.prefix.raw().key(), d.value.snap()), &exp.iter().map(|x| (x.raw.key(), x.l.unwrap_or(0))).collect::<Vec<_>>(), jj, 1))?;
            if let Err((m, d)) = r {
                chk!(ctx, "C07", false, format!("consumer:difference:{m}"), "difference: {d}; {desc}");
            }
        }
        if cores(&got) == cores(&exp) {
            chk!(ctx, "C07", got.iter().map(|x| x.raw).collect::<Vec<_>>() == exp.iter().map(|x| x.raw).collect::<Vec<_>>(), "difference:stored-prefix", "difference yields prefixes {:?}, a stores them as {:?}; {desc}", got.iter().map(|x| x.raw).collect::<Vec<_>>(), exp.iter().map(|x| x.raw).collect::<Vec<_>>());
        }
        for g in &got {
            let ra = ea.iter().find(|x| x.key == g.raw.key()).map(|x| x.raw);
            chk!(ctx, "C18", Some(g.raw) == ra, "repr:difference", "difference item reports prefix {}, stored representation is {:?}", g.raw, ra);
            if let Some(a) = g.ann {
                let rb = eb.iter().find(|x| x.key == a.0.key()).map(|x| x.raw);
                chk!(ctx, "C18", Some(a.0) == rb, "repr:difference-lpm", "difference `right` annotation reports prefix {}, stored representation is {:?}", a.0, rb);
            }
        }
        if cores(&got) == cores(&exp) {
            chk!(ctx, "C08", anns(&got) == anns(&exp), format!("difference:lpm:{relsig}"), "difference `right` annotations {:?}, true longest-prefix matches in b {:?}; {desc}", anns(&got), anns(&exp));
        }
        let (got, f, c) = ctx.obs("C07", "covering_difference", || {
            let mut it = a.covering_difference(b.clone());
            let (v, f, c) = drain(&mut it, cap2);
            (v.iter().map(|(p, l)| SItem { raw: p.raw(), tag: 1, l: Some(l.snap()), r: None, ann: None }).collect::<Vec<_>>(), f, c)
        })?;
        let exp = model_covering_difference(&ea, &eb);
        if exp.len() < model_difference(&ea, &eb).len() {
            ctx.rare("probe.covering difference prunes below a right entry");
        }
        chk!(ctx, "C07", !c, "diverge:covering_difference", "covering_difference yields more than {cap2} items; {desc}");
        chk!(ctx, "C07", cores(&got) == cores(&exp), format!("covering_difference:items:{relsig}"), "covering_difference yields {:?}, expected {:?}; {desc}", got, exp);
        chk!(ctx, "C07", f, "fused:covering_difference", "covering_difference yields an item after None; {desc}");
        if ctx.is("C07") && exp.len() >= 2 {
            let jj = exp.len() / 2;
            let r = ctx.obs("C07", "covering_difference(consumers)", || crate::packs::consumer_checks(|| a.covering_difference(b.clone()), |(p, l)| (p.raw().key(), l.snap()), &exp.iter().map(|x| (x.raw.key(), x.l.unwrap_or(0))).collect::<Vec<_>>(), jj, 1))?;
            if let Err((m, d)) = r {
                chk!(ctx, "C07", false, format!("consumer:covering_difference:{m}"), "covering_difference: {d}; {desc}");
            }
        }
        if cores(&got) == cores(&exp) {
            chk!(ctx, "C07", got.iter().map(|x| x.raw).collect::<Vec<_>>() == exp.iter().map(|x| x.raw).collect::<Vec<_>>(), "covering_difference:stored-prefix", "covering_difference yields prefixes {:?}, a stores them as {:?}; {desc}", got.iter().map(|x| x.raw).collect::<Vec<_>>(), exp.iter().map(|x| x.raw).collect::<Vec<_>>());
        }
    }
    Ok(())
}

/// `*_mut` operations of one pair of disjoint mutable views: same selection as the model, all
/// handed-out references pairwise distinct
pub fn check_mut<P: SimPrefix, L: SimVal, Rr: SimVal>(ctx: &mut Ctx, mut a: TrieViewMut<'_, P, L>, b: TrieViewMut<'_, P, Rr>, cap: usize, pick: u64) -> R {
    let (pa, pb, ea, eb) = ctx.obs("*", "view", || (a.prefix().raw().key(), b.prefix().raw().key(), view_ents(&(&a).view(), cap), view_ents(&(&b).view(), cap)))?;
    let desc = format!("a = view {pa} {:?}, b = view {pb} {:?}", ea, eb);
    let cap2 = 2 * cap + 8;
    let distinct = |addrs: &mut Vec<usize>| {
        let n = addrs.len();
        addrs.sort();
        addrs.dedup();
        addrs.len() == n
    };
    if ctx.wants("C07") || ctx.wants("C08") || ctx.wants("C13") || ctx.wants("C14") || ctx.wants("C18") {
        let (got, c, mut addrs) = ctx.obs("C07", "difference_mut", || {
            let mut it = a.difference_mut(&b);
            let (v, _, c) = drain(&mut it, cap2);
            let addrs: Vec<usize> = v.iter().map(|d| (&*d.value) as *const L as usize).collect();
            (v.iter().map(|d| SItem { raw: d.prefix.raw(), tag: 1, l: Some(d.value.snap()), r: None, ann: d.right.map(|(p, v)| (p.raw(), v.snap())) }).collect::<Vec<_>>(), c, addrs)
        })?;
        let exp = model_difference(&ea, &eb);
        chk!(ctx, "C07", !c && cores(&got) == cores(&exp), "difference_mut:items", "difference_mut yields {:?}, expected {:?}; {desc}", got, exp);
        chk!(ctx, "C13", !c && got.iter().map(|x| (x.raw, x.l)).collect::<Vec<_>>() == exp.iter().map(|x| (x.raw, x.l)).collect::<Vec<_>>(), "mirror:difference_mut", "difference_mut yields {:?}, read-only twin {:?}; {desc}", got, exp);
        if cores(&got) == cores(&exp) {
            chk!(ctx, "C08", anns(&got) == anns(&exp), "difference_mut:lpm", "difference_mut `right` annotations {:?}, true matches {:?}; {desc}", anns(&got), anns(&exp));
        }
        chk!(ctx, "C14", L::IS_ZST || distinct(&mut addrs), "alias:difference_mut", "difference_mut handed out aliasing references; {desc}");
        for g in &got {
            let ra = ea.iter().find(|x| x.key == g.raw.key()).map(|x| x.raw);
            chk!(ctx, "C18", Some(g.raw) == ra, "repr:difference_mut", "difference_mut item reports prefix {}, stored representation is {:?}", g.raw, ra);
        }
        let (got, c, mut addrs) = ctx.obs("C07", "covering_difference_mut", || {
            let mut it = a.covering_difference_mut(&b);
            let (v, _, c) = drain(&mut it, cap2);
            let addrs: Vec<usize> = v.iter().map(|(_, l)| (&**l) as *const L as usize).collect();
            (v.iter().map(|(p, l)| SItem { raw: p.raw(), tag: 1, l: Some(l.snap()), r: None, ann: None }).collect::<Vec<_>>(), c, addrs)
        })?;
        let exp = model_covering_difference(&ea, &eb);
        chk!(ctx, "C07", !c && cores(&got) == cores(&exp), "covering_difference_mut:items", "covering_difference_mut yields {:?}, expected {:?}; {desc}", got, exp);
        chk!(ctx, "C13", !c && got.iter().map(|x| (x.raw, x.l)).collect::<Vec<_>>() == exp.iter().map(|x| (x.raw, x.l)).collect::<Vec<_>>(), "mirror:covering_difference_mut", "covering_difference_mut yields {:?}, read-only twin {:?}; {desc}", got, exp);
        chk!(ctx, "C14", L::IS_ZST || distinct(&mut addrs), "alias:covering_difference_mut", "covering_difference_mut handed out aliasing references; {desc}");
    }
    if pick % 2 == 0 {
        if ctx.wants("C05") || ctx.wants("C13") || ctx.wants("C14") || ctx.wants("C18") {
            let (got, c, mut al, mut ar) = ctx.obs("C05", "union_mut", || {
                let mut it = a.union_mut(b);
                let (v, _, c) = drain(&mut it, cap2);
                let al: Vec<usize> = v.iter().filter_map(|(_, l, _)| l.as_ref().map(|x| (&**x) as *const L as usize)).collect();
                let ar: Vec<usize> = v.iter().filter_map(|(_, _, r)| r.as_ref().map(|x| (&**x) as *const Rr as usize)).collect();
                (
                    v.iter()
                        .map(|(p, l, r)| SItem { raw: p.raw(), tag: if l.is_some() && r.is_some() { 0 } else if l.is_some() { 1 } else { 2 }, l: l.as_ref().map(|x| x.snap()), r: r.as_ref().map(|x| x.snap()), ann: None })
                        .collect::<Vec<_>>(),
                    c,
                    al,
                    ar,
                )
            })?;
            let exp = model_union(&ea, &eb);
            chk!(ctx, "C05", !c && cores(&got) == cores(&exp), "union_mut:items", "union_mut yields {:?}, expected {:?}; {desc}", got, exp);
            chk!(ctx, "C13", !c && cores(&got) == cores(&exp), "mirror:union_mut", "union_mut yields {:?}, read-only twin {:?}; {desc}", got, exp);
            for g in &got {
                let (ra, rb) = (ea.iter().find(|x| x.key == g.raw.key()).map(|x| x.raw), eb.iter().find(|x| x.key == g.raw.key()).map(|x| x.raw));
                chk!(ctx, "C18", Some(g.raw) == ra || Some(g.raw) == rb, "repr:union_mut", "union_mut item reports prefix {}, stored representations are {:?} / {:?}", g.raw, ra, rb);
            }
            chk!(ctx, "C14", (L::IS_ZST || distinct(&mut al)) && (Rr::IS_ZST || distinct(&mut ar)), "alias:union_mut", "union_mut handed out aliasing references; {desc}");
        }
    } else if ctx.wants("C06") || ctx.wants("C13") || ctx.wants("C14") || ctx.wants("C18") {
        let (got, c, mut al, mut ar) = ctx.obs("C06", "intersection_mut", || {
            let mut it = a.intersection_mut(b);
            let (v, _, c) = drain(&mut it, cap2);
            let al: Vec<usize> = v.iter().map(|(_, l, _)| (&**l) as *const L as usize).collect();
            let ar: Vec<usize> = v.iter().map(|(_, _, r)| (&**r) as *const Rr as usize).collect();
            (v.iter().map(|(p, l, r)| SItem { raw: p.raw(), tag: 0, l: Some(l.snap()), r: Some(r.snap()), ann: None }).collect::<Vec<_>>(), c, al, ar)
        })?;
        let exp = model_intersection(&ea, &eb);
        chk!(ctx, "C06", !c && cores(&got) == cores(&exp), "intersection_mut:items", "intersection_mut yields {:?}, expected {:?}; {desc}", got, exp);
        chk!(ctx, "C13", !c && cores(&got) == cores(&exp), "mirror:intersection_mut", "intersection_mut yields {:?}, read-only twin {:?}; {desc}", got, exp);
        for g in &got {
            let (ra, rb) = (ea.iter().find(|x| x.key == g.raw.key()).map(|x| x.raw), eb.iter().find(|x| x.key == g.raw.key()).map(|x| x.raw));
            chk!(ctx, "C18", Some(g.raw) == ra || Some(g.raw) == rb, "repr:intersection_mut", "intersection_mut item reports prefix {}, stored representations are {:?} / {:?}", g.raw, ra, rb);
        }
        chk!(ctx, "C14", (L::IS_ZST || distinct(&mut al)) && (Rr::IS_ZST || distinct(&mut ar)), "alias:intersection_mut", "intersection_mut handed out aliasing references; {desc}");
    }
    Ok(())
}

/// navigation paths with forced coverage of the relative positions of the two roots
fn root_navs<P: SimPrefix>(rng: &mut Rng, pa: &[Key], pb: &[Key], salt: u64) -> (Vec<Nav>, Vec<Nav>) {
    let at = |k: Key| Nav::At(noisy::<P>(k, salt));
    let pick = |rng: &mut Rng, ps: &[Key]| if ps.is_empty() { Key::ZERO } else { *rng.pick(ps) };
    let qa = pick(rng, pa);
    let mut na = vec![];
    let mut nb = vec![];
    match rng.below(10) {
        0 => {}
        1 => na.push(at(qa)),
        2 => nb.push(at(pick(rng, pb))),
        3 => {
            // equal prefixes
            na.push(at(qa));
            nb.push(at(qa));
        }
        4 => {
            // a above b
            na.push(at(qa.truncate(rng.below(qa.len as u64 + 1) as u8)));
            nb.push(at(qa));
        }
        5 => {
            nb.push(at(qa.truncate(rng.below(qa.len as u64 + 1) as u8)));
            na.push(at(qa));
        }
        6 => {
            // siblings: disjoint
            if let Some(p) = qa.parent() {
                na.push(at(qa));
                nb.push(at(p.child(!Key::addr_bit(qa.bits, p.len))));
            }
        }
        _ => {
            na.push(at(qa));
            nb.push(at(pick(rng, pb)));
        }
    }
    for n in [&mut na, &mut nb] {
        match rng.below(8) {
            0 => n.push(Nav::Left),
            1 => n.push(Nav::Right),
            2 => n.push(Nav::FindLpm(noisy::<P>(qa, salt))),
            _ => {}
        }
    }
    (na, nb)
}

pub trait PairFn<P: SimPrefix> {
    fn call<L: SimVal, Rr: SimVal>(&mut self, ctx: &mut Ctx, a: TrieView<'_, P, L>, b: TrieView<'_, P, Rr>) -> R;
}
pub fn with_views<P: SimPrefix, F: PairFn<P>>(w: &World<P>, ctx: &mut Ctx, a: Opnd, b: Opnd, f: &mut F) -> R {
    match (w.opnd(a), w.opnd(b)) {
        (Opnd::M(i), Opnd::M(j)) => f.call(ctx, w.maps[i as usize].real.view(), w.maps[j as usize].real.view()),
        (Opnd::M(i), Opnd::S(j)) => f.call(ctx, w.maps[i as usize].real.view(), w.sets[j as usize].real.view()),
        (Opnd::S(i), Opnd::M(j)) => f.call(ctx, w.sets[i as usize].real.view(), w.maps[j as usize].real.view()),
        (Opnd::S(i), Opnd::S(j)) => f.call(ctx, w.sets[i as usize].real.view(), w.sets[j as usize].real.view()),
    }
}
pub trait PairFnMut<P: SimPrefix> {
    fn call<L: SimVal, Rr: SimVal>(&mut self, ctx: &mut Ctx, a: TrieViewMut<'_, P, L>, b: TrieViewMut<'_, P, Rr>) -> R;
}
/// two *different* containers, both mutably
pub fn with_views_mut<P: SimPrefix, F: PairFnMut<P>>(w: &mut World<P>, ctx: &mut Ctx, a: Opnd, b: Opnd, f: &mut F) -> R {
    match (w.opnd(a), w.opnd(b)) {
        (Opnd::M(i), Opnd::M(j)) if i != j => {
            let (x, y) = two_mut(&mut w.maps, i as usize, j as usize);
            f.call(ctx, x.real.view_mut(), y.real.view_mut())
        }
        (Opnd::M(i), Opnd::S(j)) => f.call(ctx, w.maps[i as usize].real.view_mut(), w.sets[j as usize].real.view_mut()),
        (Opnd::S(i), Opnd::M(j)) => f.call(ctx, w.sets[i as usize].real.view_mut(), w.maps[j as usize].real.view_mut()),
        (Opnd::S(i), Opnd::S(j)) if i != j => {
            let (x, y) = two_mut(&mut w.sets, i as usize, j as usize);
            f.call(ctx, x.real.view_mut(), y.real.view_mut())
        }
        _ => Ok(()),
    }
}

struct RoPair<'n> {
    na: &'n [Nav],
    nb: &'n [Nav],
    cap: usize,
}
impl<P: SimPrefix> PairFn<P> for RoPair<'_> {
    fn call<L: SimVal, Rr: SimVal>(&mut self, ctx: &mut Ctx, a: TrieView<'_, P, L>, b: TrieView<'_, P, Rr>) -> R {
        let (a, b) = ctx.obs("*", "navigate", || (navigate(a, self.na), navigate(b, self.nb)))?;
        check_ro(ctx, &a, &b, self.cap)
    }
}
struct MutPair<'n> {
    na: &'n [Nav],
    nb: &'n [Nav],
    cap: usize,
    pick: u64,
}
impl<P: SimPrefix> PairFnMut<P> for MutPair<'_> {
    fn call<L: SimVal, Rr: SimVal>(&mut self, ctx: &mut Ctx, a: TrieViewMut<'_, P, L>, b: TrieViewMut<'_, P, Rr>) -> R {
        let (a, b) = ctx.obs("*", "navigate_mut", || (navigate_mut(a, self.na), navigate_mut(b, self.nb)))?;
        check_mut(ctx, a, b, self.cap, self.pick)
    }
}
/// two disjoint views of the *same* container, obtained by split()
struct SameSplit<'n> {
    na: &'n [Nav],
    cap: usize,
    pick: u64,
}
impl SameSplit<'_> {
    fn run<P: SimPrefix, T: SimVal>(&self, ctx: &mut Ctx, root: TrieViewMut<'_, P, T>) -> R {
        let v = ctx.obs("*", "navigate_mut", || navigate_mut(root, self.na))?;
        let (l, r) = ctx.obs("*", "split", || v.split())?;
        if let (Some(l), Some(r)) = (l, r) {
            ctx.rare("probe.setop_mut on two split halves of one map");
            if self.pick & 4 == 0 {
                check_mut(ctx, l, r, self.cap, self.pick)
            } else {
                check_mut(ctx, r, l, self.cap, self.pick)
            }
        } else {
            Ok(())
        }
    }
}

/// the per-step pack: a few container pairs, a few root pairs each
pub fn pack_setops<P: SimPrefix>(ctx: &mut Ctx, w: &mut World<P>) -> R {
    let n = w.maps.len() + w.sets.len();
    let mut rng = Rng::new(ctx.salt ^ (ctx.step as u64).wrapping_mul(0xA24B_AED4_963E_E407));
    let opnd = |i: usize, w: &World<P>| if i < w.maps.len() { Opnd::M(i as u8) } else { Opnd::S((i - w.maps.len()) as u8) };
    let prs: Vec<Vec<Key>> = (0..n).map(|i| probes::<P>(&w.cfg, &w.truths[i].ents)).collect();
    let salt = ctx.salt ^ ctx.step as u64;
    for _ in 0..3 {
        let (i, j) = (rng.below(n as u64) as usize, rng.below(n as u64) as usize);
        let cap = 2 * (w.truths[i].nodes.len() + w.truths[j].nodes.len()) + 8;
        for _ in 0..4 {
            let (na, nb) = root_navs::<P>(&mut rng, &prs[i], &prs[j], salt);
            with_views(w, ctx, opnd(i, w), opnd(j, w), &mut RoPair { na: &na, nb: &nb, cap })?;
        }
        // mutable forms
        let (na, nb) = root_navs::<P>(&mut rng, &prs[i], &prs[j], salt);
        let pick = rng.next();
        if i != j {
            with_views_mut(w, ctx, opnd(i, w), opnd(j, w), &mut MutPair { na: &na, nb: &nb, cap, pick })?;
        } else {
            let s = SameSplit { na: &na, cap, pick };
            match opnd(i, w) {
                Opnd::M(m) => s.run(ctx, w.maps[m as usize].real.view_mut())?,
                Opnd::S(m) => s.run(ctx, w.sets[m as usize].real.view_mut())?,
            }
        }
    }
    Ok(())
}
