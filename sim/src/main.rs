//! Deterministic simulator for prefix-trie. See /verif/DESIGN.md.

mod aux;
mod ctx;
mod exec;
mod key;
mod known;
mod packs;
mod packs2;
mod ptypes;
mod rng;
mod run;
mod script;
mod sessions;
mod setops;
mod shrink;
mod threads;
mod truth;
mod val;
mod views;

use ctx::Stats;
use run::{run_script, Outcome, RunResult};
use script::{generate, GenParams, Script};
use serde::{Deserialize, Serialize};
use std::collections::{BTreeMap, BTreeSet};
use std::sync::Arc;

#[derive(Serialize, Deserialize)]
pub struct ReplayFile {
    pub property: String,
    pub signature: String,
    pub detail: String,
    pub found_at: String,
    pub shrink_candidates_run: usize,
    pub original_steps: usize,
    pub script: Script,
}

struct Args {
    cmd: String,
    rest: Vec<String>,
    opts: BTreeMap<String, String>,
}

fn parse_args() -> Args {
    let mut it = std::env::args().skip(1);
    let cmd = it.next().unwrap_or_else(|| "help".into());
    let mut rest = vec![];
    let mut opts = BTreeMap::new();
    let v: Vec<String> = it.collect();
    let mut i = 0;
    while i < v.len() {
        if let Some(k) = v[i].strip_prefix("--") {
            if i + 1 < v.len() && !v[i + 1].starts_with("--") {
                opts.insert(k.to_string(), v[i + 1].clone());
                i += 2;
            } else {
                opts.insert(k.to_string(), "1".into());
                i += 1;
            }
        } else {
            rest.push(v[i].clone());
            i += 1;
        }
    }
    Args { cmd, rest, opts }
}

fn verif_seed(a: &Args) -> u64 {
    a.opts.get("seed").cloned().or_else(|| std::env::var("VERIF_SEED").ok()).and_then(|s| s.trim().parse::<u64>().ok()).unwrap_or(20260927)
}

/// fixed run counts (not wall-clock budgets): a seed explores the same runs on every machine
fn run_count(prop: &str, thorough: bool) -> u64 {
    let (q, t) = match prop {
        "C01" => (30_000, 400_000),
        "C02" => (30_000, 400_000),
        "C03" => (40_000, 600_000),
        "C04" => (150_000, 2_000_000),
        "C05" | "C06" | "C07" | "C08" => (25_000, 400_000),
        "C09" => (8_000, 150_000),
        "C10" => (4_000, 60_000),
        "C11" => (16_000, 200_000),
        "C12" => (12_000, 250_000),
        "C13" => (20_000, 400_000),
        "C14" => (20_000, 400_000),
        "C15" => (60_000, 1_000_000),
        "C16" => (30_000, 400_000),
        "C18" => (5_000, 80_000),
        "C19" => (50_000, 800_000),
        "C20" => (2_000, 30_000),
        _ => (2_000, 50_000),
    };
    if thorough {
        t
    } else {
        q
    }
}

fn level_of(prop: &str) -> &'static str {
    if prop == "C20" {
        "fault_enumeration"
    } else {
        "exploration"
    }
}

fn script_hash(s: &Script) -> u64 {
    let bytes = serde_json::to_vec(&s.steps).unwrap_or_default();
    let mut h: u64 = 0xcbf2_9ce4_8422_2325 ^ s.cfg.universe.len() as u64;
    for b in bytes {
        h ^= b as u64;
        h = h.wrapping_mul(0x100_0000_01b3);
    }
    h
}

struct Batch {
    stats: Stats,
    runs: u64,
    foreign: u64,
    foreign_samples: BTreeSet<String>,
    known: BTreeMap<String, (u64, String)>,
    violations: Vec<(u64, ctx::Violation)>,
    nontrivial: BTreeSet<u64>,
    log: Vec<(u64, u64)>,
    by_ptype: BTreeMap<String, u64>,
    by_family: BTreeMap<String, u64>,
    fault_runs: u64,
}


/// Wall-clock safety net. Divergence inside the library is normally turned into a replayable
/// panic by the fuel budget (hook H2: every arena access ticks). A loop that passes no
/// instrumented access would hang the check instead; the watchdog reports such a run (typical
/// runs take milliseconds, the limit is minutes) with the generated script as the replay file.
/// The verdict of a finished run never depends on time.
struct WatchCfg {
    replays: String,
    known_path: String,
    evidence: Option<String>,
}
static WATCH_CFG: std::sync::OnceLock<WatchCfg> = std::sync::OnceLock::new();
fn wall_limit_s() -> u64 {
    std::env::var("VERIF_RUN_WALL_LIMIT").ok().and_then(|x| x.parse().ok()).unwrap_or(300)
}
const WALL_SIG: &str = "diverge:wall-clock";

fn report_stuck(prop: &str, thorough: bool, seed: u64, profile: &str, run: u64, runs_done: u64, nontrivial_lb: u64) -> ! {
    let limit = wall_limit_s();
    let params = GenParams { property: prop.to_string(), tier_thorough: thorough, profile: profile.to_string() };
    let script = generate(seed, &params, run);
    let (replays, known_path, evidence) = match WATCH_CFG.get() {
        Some(c) => (c.replays.clone(), c.known_path.clone(), c.evidence.clone()),
        None => ("/verif/replays".to_string(), "/verif/KNOWN_FINDINGS.txt".to_string(), None),
    };
    let sig = format!("{prop}:{WALL_SIG}");
    let detail = format!("run {run} did not finish within {limit} s of wall-clock time (a typical run takes milliseconds): a library call does not terminate and passes no fuel-instrumented arena access");
    let _ = std::fs::create_dir_all(&replays);
    let path = format!("{replays}/{prop}-{seed}-{run}-stuck.json");
    let rf = ReplayFile {
        property: prop.to_string(),
        signature: sig.clone(),
        detail: detail.clone(),
        found_at: format!("VERIF_SEED={seed} run={run} tier={} profile={profile}", if thorough { "thorough" } else { "quick" }),
        shrink_candidates_run: 0,
        original_steps: script.steps.len(),
        script,
    };
    let _ = std::fs::write(&path, serde_json::to_string_pretty(&rf).unwrap());
    let exe = std::env::current_exe().expect("current exe");
    let out = std::process::Command::new(exe).arg("replay").arg(&path).arg("--known").arg(&known_path).output();
    let confirmed = match &out {
        Ok(o) => o.status.code() == Some(1) && String::from_utf8_lossy(&o.stdout).contains(WALL_SIG),
        Err(_) => false,
    };
    println!("violation: {sig} in run {run}: {detail}");
    println!("not minimised (the run does not terminate); replay confirmed in a fresh process: {confirmed}");
    if let Some(ev) = evidence {
        let e = serde_json::json!({
            "property_id": prop, "tier": if thorough { "thorough" } else { "quick" }, "seed": seed, "level": level_of(prop), "wall_s": limit as f64, "violations": 1,
            "coverage": {"evaluations": runs_done, "distinct_nontrivial": nontrivial_lb, "rule": "batch aborted by the wall-clock watchdog: evaluations = runs finished by then; distinct_nontrivial = the largest per-worker count of distinct non-trivial scripts (a lower bound of the batch's count; non-trivial = at least 3 state-changing steps and at least one rare probe hit)", "samples": [sample_script(seed, prop, thorough, profile, run)],
                "engine": "sim (seeded scripts, per-step oracles)", "violation": {"signature": sig, "run": run, "replay": path, "confirmed": confirmed}},
        });
        let _ = std::fs::write(ev, serde_json::to_string_pretty(&e).unwrap());
    }
    if confirmed {
        println!("VIOLATION property={prop} replay={path}");
        std::process::exit(1);
    }
    eprintln!("sim: harness error: run {run} exceeded the wall-clock limit but its replay did not");
    std::process::exit(2);
}

fn run_batch(prop: &str, thorough: bool, seed: u64, runs: u64, threads: usize, profile: &str, known: Arc<Vec<known::Finding>>, keep_log: bool) -> Batch {
    let params = Arc::new(GenParams { property: prop.to_string(), tier_thorough: thorough, profile: profile.to_string() });
    let stop = Arc::new(std::sync::atomic::AtomicU64::new(u64::MAX));
    let mut handles = vec![];
    // (run index or MAX, start in ms since t0) per worker, for the wall-clock watchdog
    let progress: Arc<Vec<(std::sync::atomic::AtomicU64, std::sync::atomic::AtomicU64)>> =
        Arc::new((0..threads).map(|_| (std::sync::atomic::AtomicU64::new(u64::MAX), std::sync::atomic::AtomicU64::new(0))).collect());
    // (runs finished, distinct non-trivial scripts) per worker
    let counts: Arc<Vec<(std::sync::atomic::AtomicU64, std::sync::atomic::AtomicU64)>> =
        Arc::new((0..threads).map(|_| (std::sync::atomic::AtomicU64::new(0), std::sync::atomic::AtomicU64::new(0))).collect());
    let t0 = std::time::Instant::now();
    let all_done = Arc::new(std::sync::atomic::AtomicBool::new(false));
    {
        let (progress, counts, all_done, prop, profile) = (progress.clone(), counts.clone(), all_done.clone(), prop.to_string(), profile.to_string());
        std::thread::spawn(move || {
            let limit_ms = wall_limit_s() * 1000;
            while !all_done.load(std::sync::atomic::Ordering::Relaxed) {
                std::thread::sleep(std::time::Duration::from_millis(500));
                let now = t0.elapsed().as_millis() as u64;
                for (run, start) in progress.iter() {
                    let r = run.load(std::sync::atomic::Ordering::SeqCst);
                    let st = start.load(std::sync::atomic::Ordering::SeqCst);
                    if r != u64::MAX && now.saturating_sub(st) > limit_ms && run.load(std::sync::atomic::Ordering::SeqCst) == r {
                        let done: u64 = counts.iter().map(|c| c.0.load(std::sync::atomic::Ordering::Relaxed)).sum();
                        let nt: u64 = counts.iter().map(|c| c.1.load(std::sync::atomic::Ordering::Relaxed)).max().unwrap_or(0);
                        report_stuck(&prop, thorough, seed, &profile, r, done, nt);
                    }
                }
            }
        });
    }
    for tid in 0..threads {
        let params = params.clone();
        let known = known.clone();
        let stop = stop.clone();
        let progress = progress.clone();
        let counts = counts.clone();
        handles.push(
            std::thread::Builder::new()
                .stack_size(64 << 20)
                .spawn(move || {
                    ctx::set_quiet(true);
                    let mut b = Batch {
                        stats: Stats::default(),
                        runs: 0,
                        foreign: 0,
                        foreign_samples: BTreeSet::new(),
                        known: BTreeMap::new(),
                        violations: vec![],
                        nontrivial: BTreeSet::new(),
                        log: vec![],
                        by_ptype: BTreeMap::new(),
                        by_family: BTreeMap::new(),
                        fault_runs: 0,
                    };
                    let mut i = tid as u64;
                    while i < runs {
                        // after a violation only runs with a smaller index still matter
                        if i > stop.load(std::sync::atomic::Ordering::Relaxed) {
                            break;
                        }
                        let s = generate(seed, &params, i);
                        progress[tid].1.store(t0.elapsed().as_millis() as u64, std::sync::atomic::Ordering::SeqCst);
                        progress[tid].0.store(i, std::sync::atomic::Ordering::SeqCst);
                        let r: RunResult = run_script(&s, known.clone());
                        progress[tid].0.store(u64::MAX, std::sync::atomic::Ordering::SeqCst);
                        b.runs += 1;
                        *b.by_ptype.entry(format!("{:?}", s.cfg.ptype)).or_insert(0) += 1;
                        *b.by_family.entry(s.cfg.family.clone()).or_insert(0) += 1;
                        if s.cfg.faults {
                            b.fault_runs += 1;
                        }
                        if keep_log {
                            b.log.push((i, r.log_hash));
                        }
                        if r.stats.changing_steps >= 3 && r.rare >= 1 {
                            b.nontrivial.insert(script_hash(&s));
                        }
                        for sig in &r.known_hits {
                            let e = b.known.entry(sig.clone()).or_insert((0, "panic on use of an OccupiedEntry handle after remove(&mut self); the run continued".to_string()));
                            e.0 += 1;
                        }
                        match &r.outcome {
                            Outcome::Ok => {}
                            Outcome::Foreign(sg) => {
                                b.foreign += 1;
                                if b.foreign_samples.len() < 5 {
                                    b.foreign_samples.insert(sg.clone());
                                }
                            }
                            Outcome::Known(v) => {
                                let e = b.known.entry(v.sig.clone()).or_insert((0, v.detail.clone()));
                                e.0 += 1;
                            }
                            Outcome::Violation(v) => {
                                b.violations.push((i, v.clone()));
                                stop.fetch_min(i, std::sync::atomic::Ordering::Relaxed);
                            }
                        }
                        b.stats.merge(&r.stats);
                        counts[tid].0.store(b.runs, std::sync::atomic::Ordering::Relaxed);
                        counts[tid].1.store(b.nontrivial.len() as u64, std::sync::atomic::Ordering::Relaxed);
                        i += threads as u64;
                    }
                    b
                })
                .unwrap(),
        );
    }
    let mut total = Batch {
        stats: Stats::default(),
        runs: 0,
        foreign: 0,
        foreign_samples: BTreeSet::new(),
        known: BTreeMap::new(),
        violations: vec![],
        nontrivial: BTreeSet::new(),
        log: vec![],
        by_ptype: BTreeMap::new(),
        by_family: BTreeMap::new(),
        fault_runs: 0,
    };
    for (n, h) in handles.into_iter().enumerate() {
        let b = h.join().expect("worker thread");
        if n + 1 == threads {
            all_done.store(true, std::sync::atomic::Ordering::Relaxed);
        }
        total.stats.merge(&b.stats);
        total.runs += b.runs;
        total.foreign += b.foreign;
        total.foreign_samples.extend(b.foreign_samples);
        for (k, v) in b.known {
            let e = total.known.entry(k).or_insert((0, v.1));
            e.0 += v.0;
        }
        total.violations.extend(b.violations);
        total.nontrivial.extend(b.nontrivial);
        total.log.extend(b.log);
        for (k, v) in b.by_ptype {
            *total.by_ptype.entry(k).or_insert(0) += v;
        }
        for (k, v) in b.by_family {
            *total.by_family.entry(k).or_insert(0) += v;
        }
        total.fault_runs += b.fault_runs;
    }
    total.violations.sort_by_key(|v| v.0);
    total.log.sort();
    total
}

fn sample_script(seed: u64, prop: &str, thorough: bool, profile: &str, run: u64) -> serde_json::Value {
    let params = GenParams { property: prop.to_string(), tier_thorough: thorough, profile: profile.to_string() };
    let mut s = generate(seed, &params, run);
    let n = s.steps.len();
    s.steps.truncate(10);
    let mut v = serde_json::to_value(&s).unwrap_or(serde_json::Value::Null);
    if let Some(o) = v.as_object_mut() {
        o.insert("note".into(), serde_json::json!(format!("first 10 of {n} steps shown")));
        if let Some(c) = o.get_mut("cfg").and_then(|c| c.as_object_mut()) {
            if let Some(u) = c.get_mut("universe").and_then(|u| u.as_array_mut()) {
                let len = u.len();
                u.truncate(12);
                c.insert("universe_size".into(), serde_json::json!(len));
            }
        }
    }
    v
}

fn cmd_run(a: &Args) -> i32 {
    let prop = a.opts.get("property").cloned().unwrap_or_else(|| "C01".into());
    let thorough = a.opts.get("tier").map(|t| t == "thorough").unwrap_or(false);
    let seed = verif_seed(a);
    let runs = a.opts.get("runs").and_then(|r| r.parse().ok()).unwrap_or_else(|| run_count(&prop, thorough));
    let threads: usize = a.opts.get("threads").and_then(|r| r.parse().ok()).unwrap_or(16);
    let profile = a.opts.get("profile").cloned().unwrap_or_else(|| "checked".into());
    let known_path = a.opts.get("known").cloned().unwrap_or_else(|| "/verif/KNOWN_FINDINGS.txt".into());
    let replays = a.opts.get("replays").cloned().unwrap_or_else(|| "/verif/replays".into());
    let known = Arc::new(known::load(&known_path));
    let _ = WATCH_CFG.set(WatchCfg { replays: replays.clone(), known_path: known_path.clone(), evidence: Some(a.opts.get("evidence").cloned().unwrap_or_else(|| format!("/verif/evidence/{prop}.json"))) });
    let t0 = std::time::Instant::now();
    println!("sim: property={prop} tier={} VERIF_SEED={seed} runs={runs} threads={threads} profile={profile}", if thorough { "thorough" } else { "quick" });
    let b = run_batch(&prop, thorough, seed, runs, threads, &profile, known.clone(), false);
    let wall = t0.elapsed().as_secs_f64();
    for (sig, (n, detail)) in &b.known {
        // the finding's own property (a finding of C20 can also be met while another property runs)
        let f = known.iter().find(|f| f.sig == *sig);
        let (fp, text) = f.map(|f| (f.property.clone(), f.text.clone())).unwrap_or((prop.clone(), String::new()));
        println!("KNOWN-FINDING: property={fp} sig={sig} hits={n} {text} [e.g. {}]", detail.chars().take(160).collect::<String>());
    }
    let mut exit = 0;
    let mut viol_info = serde_json::Value::Null;
    if let Some((run, v)) = b.violations.first() {
        // minimise, write the replay file, and confirm it in a fresh process
        let params = GenParams { property: prop.clone(), tier_thorough: thorough, profile: profile.clone() };
        let script = generate(seed, &params, *run);
        ctx::set_quiet(true);
        let (small, cands) = shrink::shrink(&script, &v.sig, v.step, &known);
        let final_v = match run_script(&small, known.clone()).outcome {
            Outcome::Violation(v2) | Outcome::Known(v2) => v2,
            _ => v.clone(),
        };
        let _ = std::fs::create_dir_all(&replays);
        let path = format!("{replays}/{prop}-{seed}-{run}.json");
        let rf = ReplayFile {
            property: prop.clone(),
            signature: v.sig.clone(),
            detail: final_v.detail.clone(),
            found_at: format!("VERIF_SEED={seed} run={run} tier={} profile={profile}", if thorough { "thorough" } else { "quick" }),
            shrink_candidates_run: cands,
            original_steps: script.steps.len(),
            script: small.clone(),
        };
        std::fs::write(&path, serde_json::to_string_pretty(&rf).unwrap()).expect("write replay file");
        // fresh process
        let exe = std::env::current_exe().expect("current exe");
        let out = std::process::Command::new(exe).arg("replay").arg(&path).arg("--known").arg(&known_path).output();
        let confirmed = match &out {
            Ok(o) => o.status.code() == Some(1) && String::from_utf8_lossy(&o.stdout).contains(&format!("sig={}", v.sig)),
            Err(_) => false,
        };
        println!("violation: {} at step {} of run {run}: {}", v.sig, v.step, final_v.detail.chars().take(600).collect::<String>());
        println!("minimised {} -> {} steps ({} candidates run); replay confirmed in a fresh process: {confirmed}", script.steps.len(), small.steps.len(), cands);
        if confirmed {
            println!("VIOLATION property={prop} replay={path}");
            exit = 1;
        } else {
            eprintln!("sim: harness error: the minimised replay file did not reproduce the violation in a fresh process");
            exit = 2;
        }
        viol_info = serde_json::json!({"signature": v.sig, "run": run, "replay": path, "confirmed": confirmed, "detail": final_v.detail.chars().take(400).collect::<String>()});
    }
    // ---- evidence
    let ev_path = a.opts.get("evidence").cloned().unwrap_or_else(|| format!("/verif/evidence/{prop}.json"));
    let counters: BTreeMap<String, u64> = b.stats.counters.iter().map(|(k, v)| (k.to_string(), *v)).collect();
    let faults: BTreeMap<String, u64> = counters.iter().filter(|(k, _)| k.starts_with("fault.")).map(|(k, v)| (k[6..].to_string(), *v)).collect();
    let probes: BTreeMap<String, u64> = counters.iter().filter(|(k, _)| k.starts_with("probe.")).map(|(k, v)| (k[6..].to_string(), *v)).collect();
    let steps_by_kind: BTreeMap<String, u64> = counters.iter().filter(|(k, _)| k.starts_with("step.")).map(|(k, v)| (k[5..].to_string(), *v)).collect();
    let no_dim = matches!(prop.as_str(), "C02" | "C09" | "C11" | "C12");
    let ev = serde_json::json!({
        "property_id": prop,
        "tier": if thorough { "thorough" } else { "quick" },
        "seed": seed,
        "level": level_of(&prop),
        "wall_s": wall,
        "violations": b.violations.len().min(1),
        "coverage": {
            "evaluations": b.runs,
            "distinct_nontrivial": b.nontrivial.len(),
            "rule": "one evaluation = one simulated run: a script (world configuration, steps, scheduler choices, fault plan) drawn as plain data from SplitMix64(VERIF_SEED, property, run index), executed against the real crate with the property's invariant pack evaluated after every step. distinct = distinct hash of the script's steps; non-trivial = the run contained >= 3 state-changing steps AND hit >= 1 of the property's rare-situation probes (listed under rare_probes).",
            "samples": [sample_script(seed, &prop, thorough, &profile, 0), sample_script(seed, &prop, thorough, &profile, 1)],
            "engine": "sim (seeded scripts, per-step oracles)",
            "runs": b.runs,
            "steps": b.stats.steps,
            "state_changing_steps": b.stats.changing_steps,
            "ticks_arena_accesses": b.stats.ticks,
            "runs_per_hour": if wall > 0.0 { (b.runs as f64 / wall * 3600.0) as u64 } else { 0 },
            "seeds_per_hour": if wall > 0.0 { (b.runs as f64 / wall * 3600.0) as u64 } else { 0 },
            "simulated_time": "n/a - the system under test has no clock; progress is measured in steps and ticks (arena accesses)",
            "distinct_states_reached": b.stats.states.len(),
            "distinct_states_measure": "hash of (reachable arena shape in DFS order: key, has_value, has_left, has_right; number of entries) per container after every step; per-run sets capped at 100k, batch capped at 2M",
            "fault_kinds_fired": faults,
            "runs_in_fault_configuration": b.fault_runs,
            "rare_probes": probes,
            "steps_by_kind": steps_by_kind,
            "runs_by_prefix_type": b.by_ptype,
            "runs_by_family": b.by_family,
            "runs_stopped_by_foreign_event": b.foreign,
            "foreign_event_samples": b.foreign_samples,
            "known_findings_hit": b.known.iter().map(|(k, v)| (k.clone(), v.0)).collect::<BTreeMap<_, _>>(),
            "no_schedule_or_fault_dimension": no_dim,
            "real_components": ["prefix-trie crate compiled from /repo working tree (features verif-hooks, ipnet, ipnetwork, cidr, serde)", "ipnet / ipnetwork / cidr key types", "serde_json"],
            "stubbed_components": ["user callbacks and the value type (simulator-supplied, can panic on schedule)", "hasher keys of the serde path (seeded, hook H3)"],
            "profile": profile,
            "violation": viol_info,
        },
        "assumptions": [
            "sampling, not enumeration: a clean batch is evidence, not proof",
            "ground truth about a map's stored entries is read through the verif-hooks arena snapshot (H1) and an independent bit-string model of prefixes",
            "valid prefixes only (0 <= len <= width)"
        ]
    });
    if let Some(dir) = std::path::Path::new(&ev_path).parent() {
        let _ = std::fs::create_dir_all(dir);
    }
    // evidence of sub-engines is merged by the `check` wrapper; here: one file per invocation
    std::fs::write(&ev_path, serde_json::to_string_pretty(&ev).unwrap()).expect("write evidence");
    println!(
        "sim: {} runs, {} steps, {} distinct non-trivial scripts, {} distinct states, {} foreign-stopped, {:.1}s ({:.0} runs/s)",
        b.runs,
        b.stats.steps,
        b.nontrivial.len(),
        b.stats.states.len(),
        b.foreign,
        wall,
        b.runs as f64 / wall.max(1e-9)
    );
    exit
}

fn cmd_replay(a: &Args) -> i32 {
    let Some(path) = a.rest.first() else {
        eprintln!("usage: sim replay <file>");
        return 2;
    };
    let known_path = a.opts.get("known").cloned().unwrap_or_else(|| "/verif/KNOWN_FINDINGS.txt".into());
    let known = Arc::new(known::load(&known_path));
    let txt = match std::fs::read_to_string(path) {
        Ok(t) => t,
        Err(e) => {
            eprintln!("sim: cannot read {path}: {e}");
            return 2;
        }
    };
    let rf: ReplayFile = match serde_json::from_str(&txt) {
        Ok(r) => r,
        Err(e) => {
            eprintln!("sim: cannot parse {path}: {e}");
            return 2;
        }
    };
    ctx::set_quiet(true);
    {
        let (prop, path) = (rf.property.clone(), path.clone());
        std::thread::spawn(move || {
            std::thread::sleep(std::time::Duration::from_secs(wall_limit_s()));
            println!("replay: violation sig={prop}:{WALL_SIG} :: the replayed run did not finish within {} s of wall-clock time", wall_limit_s());
            println!("VIOLATION property={prop} replay={path}");
            std::process::exit(1);
        });
    }
    let r = run_script(&rf.script, known);
    match r.outcome {
        Outcome::Violation(v) | Outcome::Known(v) => {
            println!("replay: violation sig={} step={} :: {}", v.sig, v.step, v.detail);
            println!("VIOLATION property={} replay={path}", v.property);
            1
        }
        Outcome::Ok => {
            println!("replay: no violation ({} steps executed)", r.steps_done);
            0
        }
        Outcome::Foreign(s) => {
            println!("replay: run stopped by an event of another property: {s}");
            0
        }
    }
}

/// print the per-run event-log hashes (determinism self-check diffs these across processes)
fn cmd_loghash(a: &Args) -> i32 {
    let prop = a.opts.get("property").cloned().unwrap_or_else(|| "C01".into());
    let seed = verif_seed(a);
    let runs = a.opts.get("runs").and_then(|r| r.parse().ok()).unwrap_or(500);
    let threads: usize = a.opts.get("threads").and_then(|r| r.parse().ok()).unwrap_or(16);
    let known = Arc::new(known::load(&a.opts.get("known").cloned().unwrap_or_else(|| "/verif/KNOWN_FINDINGS.txt".into())));
    let b = run_batch(&prop, false, seed, runs, threads, "checked", known, true);
    for (i, h) in &b.log {
        println!("{prop} {seed} {i} {h:016x}");
    }
    0
}

fn cmd_gen(a: &Args) -> i32 {
    let prop = a.opts.get("property").cloned().unwrap_or_else(|| "C01".into());
    let seed = verif_seed(a);
    let run = a.opts.get("run").and_then(|r| r.parse().ok()).unwrap_or(0);
    let params = GenParams { property: prop, tier_thorough: a.opts.contains_key("thorough"), profile: "checked".into() };
    println!("{}", serde_json::to_string_pretty(&generate(seed, &params, run)).unwrap());
    0
}

fn main() {
    ctx::install_panic_hook();
    let a = parse_args();
    let code = match a.cmd.as_str() {
        "run" => cmd_run(&a),
        "replay" => cmd_replay(&a),
        "loghash" => cmd_loghash(&a),
        "gen" => cmd_gen(&a),
        #[cfg(feature = "threads")]
        "threads" => threads::cmd_threads(&a.opts),
        "miri" => threads::cmd_std(&a.opts),
        "aux" => aux::cmd_aux(&a.opts),
        _ => {
            eprintln!("usage: sim run --property Cxx --tier quick|thorough [--seed N] [--runs N] [--threads N] | replay <file> | loghash | gen | threads");
            2
        }
    };
    std::process::exit(code);
}
