//! The world (real containers + reference models) and the execution of top-level steps.

use crate::ctx::{Abort, Ctx, R};
use crate::key::{Key, Raw};
use crate::ptypes::SimPrefix;
use crate::rng::{mix64, Rng};
use crate::script::*;
use crate::truth::{truth_of, under_owned, Ent, Truth};
use crate::val::{arm_fault, callback_point, Val, DEFAULT_PAYLOAD};
use prefix_trie::map::Entry;
use prefix_trie::{PrefixMap, PrefixSet};
use std::cell::RefCell;
use std::collections::BTreeMap;

#[macro_export]
macro_rules! chk {
    ($ctx:expr, $p:expr, $cond:expr, $sig:expr, $($fmt:tt)*) => {
        if $ctx.is($p) && !($cond) {
            return Err($ctx.viol($p, format!("{}:{}", $p, $sig), format!($($fmt)*)));
        }
    };
}

pub struct MapW<P: SimPrefix> {
    pub real: PrefixMap<P, Val>,
    /// reference model: key -> (stored representation, payload)
    pub model: BTreeMap<Key, (Raw, u64)>,
    /// only insert / entry insertion / remove / retain / clear / collect were used since the last
    /// reset: the shape must be the canonical one
    pub canonical: bool,
    /// high-water mark of reachable arena slots
    pub hw: usize,
}
pub struct SetW<P: SimPrefix> {
    pub real: PrefixSet<P>,
    pub model: BTreeMap<Key, Raw>,
    pub canonical: bool,
    pub hw: usize,
}

impl<P: SimPrefix> MapW<P> {
    fn new() -> Self {
        MapW { real: PrefixMap::new(), model: BTreeMap::new(), canonical: true, hw: 1 }
    }
    pub fn truth(&self) -> Truth {
        truth_of(&self.real.verif_snapshot())
    }
}
impl<P: SimPrefix> SetW<P> {
    fn new() -> Self {
        SetW { real: PrefixSet::new(), model: BTreeMap::new(), canonical: true, hw: 1 }
    }
    pub fn truth(&self) -> Truth {
        truth_of(&self.real.verif_snapshot())
    }
}

pub struct World<P: SimPrefix> {
    pub maps: Vec<MapW<P>>,
    pub sets: Vec<SetW<P>>,
    pub cfg: Cfg,
    /// truths of all containers (maps, then sets) after the last step
    pub truths: Vec<Truth>,
}

pub fn retain_keeps(salt: u64, key: Key, keep: u8) -> bool {
    let h = mix64(salt ^ mix64(key.bits as u64 ^ ((key.bits >> 64) as u64).rotate_left(13) ^ ((key.len as u64) << 50)));
    (h % 8) < keep as u64
}

/// Observations made through an `Entry` handle.
#[derive(Clone, Debug, PartialEq)]
enum EObs {
    Get(Option<u64>),
    GetMut(Option<u64>),
    Key(Raw),
    Modified(u64),
    Inserted(Option<u64>),
    Ref(u64),
    Occ(bool),
    ORemove(u64),
    OInsert(u64),
    UseAfterRemove,
    Forgot,
}

pub struct StepOut {
    /// indices (maps, then sets) of containers the step was allowed to change
    pub touched: Vec<usize>,
}

impl<P: SimPrefix> World<P> {
    pub fn new(cfg: &Cfg) -> Self {
        let maps: Vec<MapW<P>> = (0..cfg.n_maps).map(|_| MapW::new()).collect();
        let sets: Vec<SetW<P>> = (0..cfg.n_sets).map(|_| SetW::new()).collect();
        let mut w = World { maps, sets, cfg: cfg.clone(), truths: vec![] };
        w.truths = w.all_truths();
        w
    }
    pub fn all_truths(&self) -> Vec<Truth> {
        self.maps.iter().map(|m| m.truth()).chain(self.sets.iter().map(|s| s.truth())).collect()
    }
    pub fn nm(&self) -> usize {
        self.maps.len()
    }
    fn mi(&self, m: u8) -> usize {
        m as usize % self.maps.len()
    }
    fn si(&self, s: u8) -> usize {
        s as usize % self.sets.len().max(1)
    }
    pub fn cidx(&self, o: Opnd) -> usize {
        match o {
            Opnd::M(m) => self.mi(m),
            Opnd::S(s) => {
                if self.sets.is_empty() {
                    self.mi(s)
                } else {
                    self.nm() + self.si(s)
                }
            }
        }
    }
    /// resolve an operand (a set operand falls back to a map when the world has no sets)
    pub fn opnd(&self, o: Opnd) -> Opnd {
        match o {
            Opnd::M(m) => Opnd::M(self.mi(m) as u8),
            Opnd::S(s) => {
                if self.sets.is_empty() {
                    Opnd::M(self.mi(s) as u8)
                } else {
                    Opnd::S(self.si(s) as u8)
                }
            }
        }
    }

    pub fn exec(&mut self, ctx: &mut Ctx, st: &Step) -> R<StepOut> {
        let nm = self.nm();
        match st {
            Step::Insert { m, k, v } => {
                let i = self.mi(*m);
                let mw = &mut self.maps[i];
                let old = ctx.mutate("insert", || mw.real.insert(P::make(*k), Val::new(*v)))?;
                let exp = mw.model.insert(k.key(), (*k, *v)).map(|x| x.1);
                chk!(ctx, "C01", old.as_ref().map(|o| o.payload) == exp, "ret:insert", "insert({k}) returned {:?}, model {:?}", old.as_ref().map(|o| o.payload), exp);
                chk!(ctx, "C18", !k.has_host_bits() || old.as_ref().map(|o| o.payload) == exp, "host-bits-matter:insert", "insert({k}) (key given with host bits) returned {:?} as previous value, expected {:?}", old.as_ref().map(|o| o.payload), exp);
                Ok(StepOut { touched: vec![i] })
            }
            Step::Remove { m, k } => {
                let i = self.mi(*m);
                let mw = &mut self.maps[i];
                let old = ctx.mutate("remove", || mw.real.remove(&P::make(*k)))?;
                let exp = mw.model.remove(&k.key()).map(|x| x.1);
                chk!(ctx, "C01", old.as_ref().map(|o| o.payload) == exp, "ret:remove", "remove({k}) returned {:?}, model {:?}", old.as_ref().map(|o| o.payload), exp);
                chk!(ctx, "C18", !k.has_host_bits() || old.as_ref().map(|o| o.payload) == exp, "host-bits-matter:remove", "remove({k}) (key given with host bits) returned {:?}, expected {:?}", old.as_ref().map(|o| o.payload), exp);
                Ok(StepOut { touched: vec![i] })
            }
            Step::RemoveKeepTree { m, k } => {
                let i = self.mi(*m);
                let mw = &mut self.maps[i];
                let old = ctx.mutate("remove_keep_tree", || mw.real.remove_keep_tree(&P::make(*k)))?;
                let exp = mw.model.remove(&k.key()).map(|x| x.1);
                if old.is_some() {
                    mw.canonical = false;
                }
                chk!(ctx, "C01", old.as_ref().map(|o| o.payload) == exp, "ret:remove_keep_tree", "remove_keep_tree({k}) returned {:?}, model {:?}", old.as_ref().map(|o| o.payload), exp);
                chk!(ctx, "C18", !k.has_host_bits() || old.as_ref().map(|o| o.payload) == exp, "host-bits-matter:remove_keep_tree", "remove_keep_tree({k}) (key given with host bits) returned {:?}, expected {:?}", old.as_ref().map(|o| o.payload), exp);
                Ok(StepOut { touched: vec![i] })
            }
            Step::RemoveChildren { m, k } => {
                let i = self.mi(*m);
                let before = self.truths[i].ents.clone();
                let mw = &mut self.maps[i];
                ctx.mutate("remove_children", || mw.real.remove_children(&P::make(*k)))?;
                let q = k.key();
                let n0 = mw.model.len();
                mw.model.retain(|kk, _| !q.covers(*kk));
                if k.len == 0 {
                    mw.canonical = true;
                } else if mw.model.len() != n0 {
                    mw.canonical = false;
                }
                let after = mw.truth().ents;
                let exp: Vec<Ent> = before.iter().filter(|e| !q.covers(e.key)).cloned().collect();
                if before.len() != exp.len() {
                    ctx.hit("probe.remove_children removed >=1");
                }
                chk!(ctx, "C10", after == exp, "remove_children:effect", "remove_children({k}): before {:?} after {:?} expected {:?}", before, after, exp);
                chk!(ctx, "C18", !k.has_host_bits() || after == exp, "host-bits-matter:remove_children", "remove_children({k}) (selector given with host bits): before {:?} after {:?} expected {:?}", before, after, exp);
                Ok(StepOut { touched: vec![i] })
            }
            Step::Retain { m, salt, keep, panic_at } => {
                let i = self.mi(*m);
                let before = self.truths[i].ents.clone();
                let mw = &mut self.maps[i];
                let log: RefCell<Vec<(Raw, u64, bool)>> = RefCell::new(vec![]);
                arm_fault(*panic_at);
                let r = ctx.mutate_faulty("retain", || {
                    mw.real.retain(|p, v| {
                        callback_point();
                        let raw = p.raw();
                        let keep = retain_keeps(*salt, raw.key(), *keep);
                        log.borrow_mut().push((raw, v.payload, keep));
                        keep
                    })
                });
                arm_fault(None);
                let r = r?;
                let log = log.into_inner();
                let panicked = r.is_none();
                retain_oracle(ctx, &before, &log, panicked, &mw.truth().ents, "retain")?;
                if panicked {
                    mw.canonical = false;
                }
                // model twin
                for (raw, _, keep) in &log {
                    if !keep {
                        mw.model.remove(&raw.key());
                    }
                }
                Ok(StepOut { touched: vec![i] })
            }
            Step::Clear { m } => {
                let i = self.mi(*m);
                let mw = &mut self.maps[i];
                ctx.mutate("clear", || mw.real.clear())?;
                mw.model.clear();
                mw.canonical = true;
                Ok(StepOut { touched: vec![i] })
            }
            Step::GetMutWrite { m, k, v } => {
                let i = self.mi(*m);
                let mw = &mut self.maps[i];
                let p = P::make(*k);
                let got = ctx.mutate("get_mut", || {
                    mw.real.get_mut(&p).map(|r| {
                        let old = r.payload;
                        r.payload = *v;
                        old
                    })
                })?;
                let exp = mw.model.get_mut(&k.key()).map(|x| {
                    let old = x.1;
                    x.1 = *v;
                    old
                });
                chk!(ctx, "C01", got == exp, "ret:get_mut", "get_mut({k}) saw {:?}, model {:?}", got, exp);
                chk!(ctx, "C18", !k.has_host_bits() || got == exp, "host-bits-matter:get_mut", "get_mut({k}) (key given with host bits) saw {:?}, expected {:?}", got, exp);
                self.expect_write_effect(ctx, i, got.map(|_| (k.key(), *v)).into_iter().collect(), "get_mut")?;
                Ok(StepOut { touched: vec![i] })
            }
            Step::LpmMutWrite { m, k, v } => {
                let i = self.mi(*m);
                let before = &self.truths[i].ents;
                let exp = crate::truth::lpm(before, k.key()).cloned();
                let mw = &mut self.maps[i];
                let p = P::make(*k);
                let got = ctx.mutate("get_lpm_mut", || {
                    mw.real.get_lpm_mut(&p).map(|(pp, r)| {
                        let old = r.payload;
                        r.payload = *v;
                        (pp.raw(), old)
                    })
                })?;
                chk!(ctx, "C13", got.map(|g| (g.0, g.1)) == exp.as_ref().map(|e| (e.raw, e.v)), "mirror:get_lpm_mut", "get_lpm_mut({k}) yielded {:?}, read-only twin {:?}", got, exp);
                chk!(ctx, "C02", got.map(|g| (g.0.key(), g.1)) == exp.as_ref().map(|e| (e.key, e.v)), "get_lpm_mut", "get_lpm_mut({k}) = {:?}, expected {:?}", got, exp);
                if let Some((raw, _)) = got {
                    if let Some(x) = mw.model.get_mut(&raw.key()) {
                        x.1 = *v;
                    }
                }
                self.expect_write_effect(ctx, i, got.map(|g| (g.0.key(), *v)).into_iter().collect(), "get_lpm_mut")?;
                Ok(StepOut { touched: vec![i] })
            }
            Step::IterMutWrite { m, form, k, order, v0 } => {
                let i = self.mi(*m);
                let before = self.truths[i].ents.clone();
                let exp: Vec<Ent> = if *form == 2 { under_owned(&before, k.key()) } else { before.clone() };
                let mw = &mut self.maps[i];
                let p = P::make(*k);
                let form = *form;
                let (order, v0) = (*order, *v0);
                let name = ["iter_mut", "values_mut", "children_mut"][form as usize % 3];
                let res = ctx.mutate(name, || {
                    // hold every yielded reference at once
                    let mut held: Vec<(Option<Raw>, &mut Val)> = match form % 3 {
                        0 => mw.real.iter_mut().map(|(p, v)| (Some(p.raw()), v)).collect(),
                        1 => mw.real.values_mut().map(|v| (None, v)).collect(),
                        _ => mw.real.children_mut(&p).map(|(p, v)| (Some(p.raw()), v)).collect(),
                    };
                    let seen: Vec<(Option<Raw>, u64)> = held.iter().map(|(r, v)| (*r, v.payload)).collect();
                    let addrs: Vec<usize> = held.iter().map(|(_, v)| (&**v) as *const Val as usize).collect();
                    // write a distinct value through every reference, in a scheduler-chosen order
                    let mut idx: Vec<usize> = (0..held.len()).collect();
                    Rng::new(order).shuffle(&mut idx);
                    for j in idx {
                        held[j].1.payload = v0 + j as u64;
                    }
                    (seen, addrs)
                })?;
                let (seen, addrs) = res;
                ctx.stats.add("fault.write-order permutations", 1);
                // C13: same prefixes and current values in the same order as the read-only twin
                let ok = seen.len() == exp.len() && seen.iter().zip(exp.iter()).all(|(s, e)| s.1 == e.v && s.0.map(|r| r == e.raw).unwrap_or(true));
                chk!(ctx, "C13", ok, format!("mirror:{name}"), "{name} yielded {:?}, read-only twin {:?}", seen, exp);
                // C14: pairwise distinct addresses
                let mut a2 = addrs.clone();
                a2.sort();
                a2.dedup();
                chk!(ctx, "C14", a2.len() == addrs.len(), format!("alias:{name}"), "{name} handed out {} references to {} distinct entries", addrs.len(), a2.len());
                let writes: Vec<(Key, u64)> = exp.iter().enumerate().map(|(j, e)| (e.key, v0 + j as u64)).collect();
                if seen.len() == exp.len() {
                    for (kk, vv) in &writes {
                        if let Some(x) = mw.model.get_mut(kk) {
                            x.1 = *vv;
                        }
                    }
                    self.expect_write_effect(ctx, i, writes, name)?;
                }
                Ok(StepOut { touched: vec![i] })
            }
            Step::Entry { m, k, acts, panic_at } => {
                let i = self.mi(*m);
                self.exec_entry(ctx, i, *k, acts, *panic_at)?;
                Ok(StepOut { touched: vec![i] })
            }
            Step::CloneInto { m, dst, clone_from } => {
                let (i, d) = (self.mi(*m), self.mi(*dst));
                let c = if *clone_from && i != d {
                    // `clone_from` into the destination (which has a free list of its own past)
                    let mut c = std::mem::take(&mut self.maps[d].real);
                    ctx.mutate("clone_from", || c.clone_from(&self.maps[i].real))?;
                    ctx.hit("step.clone_from");
                    c
                } else {
                    ctx.mutate("clone", || self.maps[i].real.clone())?
                };
                let tc = truth_of(&c.verif_snapshot());
                chk!(ctx, "C19", tc.ents == self.truths[i].ents, "clone:contents", "clone has {:?}, original {:?}", tc.ents, self.truths[i].ents);
                let eq = ctx.obs("C19", "eq", || c == self.maps[i].real && self.maps[i].real == c)?;
                chk!(ctx, "C19", eq, "clone:eq", "clone() is not equal to its original ({:?})", tc.ents);
                chk!(ctx, "C04", c.len() == tc.ents.len(), "len:clone", "clone: len() = {} but {} entries", c.len(), tc.ents.len());
                let model = self.maps[i].model.clone();
                let (canonical, hw) = (self.maps[i].canonical, self.maps[i].hw);
                let old = std::mem::replace(&mut self.maps[d], MapW { real: c, model, canonical, hw });
                ctx.mutate("drop", move || drop(old))?;
                ctx.hit("step.clone_into");
                Ok(StepOut { touched: vec![d] })
            }
            Step::Rebuild { m, how, order } => {
                let i = self.mi(*m);
                if *how % 5 == 4 {
                    self.exec_collect_dups(ctx, i, *order)?;
                    return Ok(StepOut { touched: vec![i] });
                }
                self.exec_rebuild(ctx, i, *how, *order)?;
                Ok(StepOut { touched: vec![i] })
            }
            Step::Serde { m, k0, k1 } => {
                let i = self.mi(*m);
                // several hasher keys per visited state: every key is one simulated "process"
                for extra in 1..4u64 {
                    prefix_trie::verif_hooks::set_hash_keys(k0.wrapping_add(extra.wrapping_mul(0x9E37_79B9_7F4A_7C15)), k1 ^ extra);
                    if let Some(r) = ctx.mutate("serde", || P::serde_map(&self.maps[i].real))? {
                        ctx.stats.hit("fault.hash-key round trips");
                        match r {
                            Err(e) => {
                                chk!(ctx, "C19", false, "serde:error", "serde round trip failed: {e}");
                            }
                            Ok(new) => {
                                let tn = truth_of(&new.verif_snapshot());
                                chk!(ctx, "C19", tn.ents == self.truths[i].ents, "serde:contents", "deserialize(serialize(m)) has {:?}, original {:?} (hash keys #{extra} derived from {k0:#x},{k1:#x})", tn.ents, self.truths[i].ents);
                                let eq = ctx.obs("C19", "eq", || new == self.maps[i].real && self.maps[i].real == new)?;
                                chk!(ctx, "C19", eq, "serde:eq", "deserialize(serialize(m)) != m for {:?}", tn.ents);
                                ctx.mutate("drop", move || drop(new))?;
                            }
                        }
                    }
                }
                prefix_trie::verif_hooks::set_hash_keys(*k0, *k1);
                let r = ctx.mutate("serde", || P::serde_map(&self.maps[i].real))?;
                if let Some(r) = r {
                    ctx.stats.hit("fault.hash-key round trips");
                    match r {
                        Err(e) => {
                            chk!(ctx, "C19", false, "serde:error", "serde round trip failed: {e}");
                        }
                        Ok(new) => {
                            let tn = truth_of(&new.verif_snapshot());
                            chk!(ctx, "C19", tn.ents == self.truths[i].ents, "serde:contents", "deserialize(serialize(m)) has {:?}, original {:?} (hash keys {k0:#x},{k1:#x})", tn.ents, self.truths[i].ents);
                            let eq = ctx.obs("C19", "eq", || new == self.maps[i].real && self.maps[i].real == new)?;
                            chk!(ctx, "C19", eq, "serde:eq", "deserialize(serialize(m)) != m for {:?}", tn.ents);
                            chk!(ctx, "C04", new.len() == tn.ents.len(), "len:deserialize", "deserialized: len() = {} but {} entries", new.len(), tn.ents.len());
                            let old = std::mem::replace(&mut self.maps[i].real, new);
                            ctx.mutate("drop", move || drop(old))?;
                            self.maps[i].canonical = true;
                            self.maps[i].hw = tn.n_reachable;
                        }
                    }
                }
                Ok(StepOut { touched: vec![i] })
            }
            Step::Swap { a, b } => {
                let (i, j) = (self.mi(*a), self.mi(*b));
                if i != j {
                    let (x, y) = two_mut(&mut self.maps, i, j);
                    std::mem::swap(&mut x.real, &mut y.real);
                    std::mem::swap(&mut x.model, &mut y.model);
                    std::mem::swap(&mut x.canonical, &mut y.canonical);
                    std::mem::swap(&mut x.hw, &mut y.hw);
                }
                Ok(StepOut { touched: vec![i, j] })
            }
            Step::MutSession { m, acts } => {
                let i = self.mi(*m);
                let touched = crate::sessions::mut_session(self, ctx, Opnd::M(i as u8), acts)?;
                Ok(StepOut { touched })
            }
            Step::SMutSession { s, acts } => {
                if self.sets.is_empty() {
                    return Ok(StepOut { touched: vec![] });
                }
                let i = self.si(*s);
                let touched = crate::sessions::mut_session(self, ctx, Opnd::S(i as u8), acts)?;
                Ok(StepOut { touched })
            }
            Step::ReadSession { handles, sched } => {
                crate::sessions::read_session(self, ctx, handles, sched)?;
                Ok(StepOut { touched: vec![] })
            }
            // ---------------------------------------------------------------- sets
            Step::SInsert { s, k } => {
                if self.sets.is_empty() {
                    return Ok(StepOut { touched: vec![] });
                }
                let i = self.si(*s);
                let sw = &mut self.sets[i];
                let new = ctx.mutate("set.insert", || sw.real.insert(P::make(*k)))?;
                let exp = sw.model.insert(k.key(), *k).is_none();
                chk!(ctx, "C01", new == exp, "ret:set.insert", "set.insert({k}) returned {new}, model {exp}");
                chk!(ctx, "C18", !k.has_host_bits() || new == exp, "host-bits-matter:set.insert", "set.insert({k}) (key given with host bits) returned {new} (newly inserted?), expected {exp}");
                Ok(StepOut { touched: vec![nm + i] })
            }
            Step::SRemove { s, k } => {
                if self.sets.is_empty() {
                    return Ok(StepOut { touched: vec![] });
                }
                let i = self.si(*s);
                let sw = &mut self.sets[i];
                let got = ctx.mutate("set.remove", || sw.real.remove(&P::make(*k)))?;
                let exp = sw.model.remove(&k.key()).is_some();
                chk!(ctx, "C01", got == exp, "ret:set.remove", "set.remove({k}) returned {got}, model {exp}");
                chk!(ctx, "C18", !k.has_host_bits() || got == exp, "host-bits-matter:set.remove", "set.remove({k}) (key given with host bits) returned {got}, expected {exp}");
                Ok(StepOut { touched: vec![nm + i] })
            }
            Step::SRemoveKeepTree { s, k } => {
                if self.sets.is_empty() {
                    return Ok(StepOut { touched: vec![] });
                }
                let i = self.si(*s);
                let sw = &mut self.sets[i];
                let got = ctx.mutate("set.remove_keep_tree", || sw.real.remove_keep_tree(&P::make(*k)))?;
                let exp = sw.model.remove(&k.key()).is_some();
                if got {
                    sw.canonical = false;
                }
                chk!(ctx, "C01", got == exp, "ret:set.remove_keep_tree", "set.remove_keep_tree({k}) returned {got}, model {exp}");
                Ok(StepOut { touched: vec![nm + i] })
            }
            Step::SRemoveChildren { s, k } => {
                if self.sets.is_empty() {
                    return Ok(StepOut { touched: vec![] });
                }
                let i = self.si(*s);
                let before = self.truths[nm + i].ents.clone();
                let sw = &mut self.sets[i];
                ctx.mutate("set.remove_children", || sw.real.remove_children(&P::make(*k)))?;
                let q = k.key();
                let n0 = sw.model.len();
                sw.model.retain(|kk, _| !q.covers(*kk));
                if k.len == 0 {
                    sw.canonical = true;
                } else if sw.model.len() != n0 {
                    sw.canonical = false;
                }
                let after = sw.truth().ents;
                let exp: Vec<Ent> = before.iter().filter(|e| !q.covers(e.key)).cloned().collect();
                chk!(ctx, "C10", after == exp, "set.remove_children:effect", "set.remove_children({k}): before {:?} after {:?} expected {:?}", before, after, exp);
                chk!(ctx, "C18", !k.has_host_bits() || after == exp, "host-bits-matter:set.remove_children", "set.remove_children({k}) (selector given with host bits): before {:?} after {:?} expected {:?}", before, after, exp);
                Ok(StepOut { touched: vec![nm + i] })
            }
            Step::SRetain { s, salt, keep, panic_at } => {
                if self.sets.is_empty() {
                    return Ok(StepOut { touched: vec![] });
                }
                let i = self.si(*s);
                let before = self.truths[nm + i].ents.clone();
                let sw = &mut self.sets[i];
                let log: RefCell<Vec<(Raw, u64, bool)>> = RefCell::new(vec![]);
                arm_fault(*panic_at);
                let r = ctx.mutate_faulty("set.retain", || {
                    sw.real.retain(|p| {
                        callback_point();
                        let raw = p.raw();
                        let keep = retain_keeps(*salt, raw.key(), *keep);
                        log.borrow_mut().push((raw, 0, keep));
                        keep
                    })
                });
                arm_fault(None);
                let r = r?;
                let log = log.into_inner();
                let panicked = r.is_none();
                retain_oracle(ctx, &before, &log, panicked, &sw.truth().ents, "set.retain")?;
                if panicked {
                    sw.canonical = false;
                }
                for (raw, _, keep) in &log {
                    if !keep {
                        sw.model.remove(&raw.key());
                    }
                }
                Ok(StepOut { touched: vec![nm + i] })
            }
            Step::SClear { s } => {
                if self.sets.is_empty() {
                    return Ok(StepOut { touched: vec![] });
                }
                let i = self.si(*s);
                let sw = &mut self.sets[i];
                ctx.mutate("set.clear", || sw.real.clear())?;
                sw.model.clear();
                sw.canonical = true;
                Ok(StepOut { touched: vec![nm + i] })
            }
            Step::SCloneInto { s, dst, clone_from } => {
                if self.sets.is_empty() {
                    return Ok(StepOut { touched: vec![] });
                }
                let (i, d) = (self.si(*s), self.si(*dst));
                let c = if *clone_from && i != d {
                    let mut c = std::mem::take(&mut self.sets[d].real);
                    ctx.mutate("set.clone_from", || c.clone_from(&self.sets[i].real))?;
                    c
                } else {
                    ctx.mutate("set.clone", || self.sets[i].real.clone())?
                };
                let tc = truth_of(&c.verif_snapshot());
                chk!(ctx, "C19", tc.ents == self.truths[nm + i].ents, "set.clone:contents", "set clone has {:?}, original {:?}", tc.ents, self.truths[nm + i].ents);
                let eq = ctx.obs("C19", "set.eq", || c == self.sets[i].real && self.sets[i].real == c)?;
                chk!(ctx, "C19", eq, "set.clone:eq", "set clone() is not equal to its original");
                chk!(ctx, "C04", c.len() == tc.ents.len(), "len:set.clone", "set clone: len() = {} but {} entries", c.len(), tc.ents.len());
                let model = self.sets[i].model.clone();
                let (canonical, hw) = (self.sets[i].canonical, self.sets[i].hw);
                self.sets[d] = SetW { real: c, model, canonical, hw };
                Ok(StepOut { touched: vec![nm + d] })
            }
            Step::SRebuild { s, how, order } => {
                if self.sets.is_empty() {
                    return Ok(StepOut { touched: vec![] });
                }
                let i = self.si(*s);
                let before = self.truths[nm + i].ents.clone();
                let sw = &mut self.sets[i];
                let old = std::mem::take(&mut sw.real);
                let (new, seq): (PrefixSet<P>, Vec<Raw>) = if *how % 2 == 0 {
                    ctx.mutate("set.into_iter", || {
                        let items: Vec<P> = old.into_iter().collect();
                        let seq = items.iter().map(|p| p.raw()).collect();
                        (items.into_iter().collect(), seq)
                    })?
                } else {
                    ctx.mutate("set.iter.collect", || {
                        let mut items: Vec<P> = old.iter().cloned().collect();
                        let seq = items.iter().map(|p| p.raw()).collect();
                        Rng::new(*order).shuffle(&mut items);
                        (items.into_iter().collect(), seq)
                    })?
                };
                let exp: Vec<Raw> = before.iter().map(|e| e.raw).collect();
                chk!(ctx, "C03", seq == exp, "seq:set.into_iter", "set into_iter/iter yielded {:?}, expected {:?}", seq, exp);
                sw.real = new;
                sw.canonical = true;
                let t = sw.truth();
                chk!(ctx, "C19", t.ents == before, "set.collect:contents", "set rebuilt by collect has {:?}, original {:?}", t.ents, before);
                sw.hw = t.n_reachable;
                Ok(StepOut { touched: vec![nm + i] })
            }
            Step::SSerde { s, k0, k1 } => {
                if self.sets.is_empty() {
                    return Ok(StepOut { touched: vec![] });
                }
                let i = self.si(*s);
                prefix_trie::verif_hooks::set_hash_keys(*k0, *k1);
                let r = ctx.mutate("set.serde", || P::serde_set(&self.sets[i].real))?;
                if let Some(r) = r {
                    ctx.stats.hit("fault.hash-key round trips");
                    match r {
                        Err(e) => {
                            chk!(ctx, "C19", false, "set.serde:error", "set serde round trip failed: {e}");
                        }
                        Ok(new) => {
                            let tn = truth_of(&new.verif_snapshot());
                            chk!(ctx, "C19", tn.ents == self.truths[nm + i].ents, "set.serde:contents", "set deserialize(serialize(s)) has {:?}, original {:?}", tn.ents, self.truths[nm + i].ents);
                            let eq = ctx.obs("C19", "set.eq", || new == self.sets[i].real && self.sets[i].real == new)?;
                            chk!(ctx, "C19", eq, "set.serde:eq", "set deserialize(serialize(s)) != s");
                            self.sets[i].real = new;
                            self.sets[i].canonical = true;
                            self.sets[i].hw = tn.n_reachable;
                        }
                    }
                }
                Ok(StepOut { touched: vec![nm + i] })
            }
        }
    }

    /// After a value-only write step: the truth must be the old truth with exactly these writes,
    /// and the shape must be untouched (C13).
    fn expect_write_effect(&mut self, ctx: &mut Ctx, i: usize, writes: Vec<(Key, u64)>, what: &str) -> R {
        if !ctx.is("C13") {
            return Ok(());
        }
        let before = &self.truths[i];
        let after = self.maps[i].truth();
        let mut exp = before.ents.clone();
        for (k, v) in &writes {
            for e in exp.iter_mut() {
                if e.key == *k {
                    e.v = *v;
                }
            }
        }
        if !writes.is_empty() {
            ctx.rare("probe.writes through mutable references verified");
        }
        chk!(ctx, "C13", after.ents == exp, format!("write-effect:{what}"), "after writes through {what}: entries {:?}, expected {:?}", after.ents, exp);
        let shape_b: Vec<_> = before.nodes.iter().map(|n| (n.raw.key(), n.left, n.right, n.has_value)).collect();
        let shape_a: Vec<_> = after.nodes.iter().map(|n| (n.raw.key(), n.left, n.right, n.has_value)).collect();
        chk!(ctx, "C13", shape_a == shape_b, format!("shape-changed:{what}"), "writes through {what} changed the tree shape");
        Ok(())
    }

    /// `collect()` from a sequence in which some networks occur twice (different host bits and
    /// values): the result must be what inserting the items one after the other gives
    fn exec_collect_dups(&mut self, ctx: &mut Ctx, i: usize, order: u64) -> R {
        let before = self.truths[i].ents.clone();
        let mut rng = Rng::new(order);
        let mut list: Vec<(Raw, u64)> = before.iter().map(|e| (e.raw, e.v)).collect();
        rng.shuffle(&mut list);
        // sometimes a long input (sorting-based implementations behave differently above ~32 items)
        let ndup = if list.is_empty() {
            0
        } else if rng.chance(1, 3) {
            rng.range(34, 80).saturating_sub(list.len() as u64).max(3)
        } else {
            rng.range(1, 3)
        };
        for j in 0..ndup {
            let (raw, _) = list[rng.below(list.len() as u64) as usize];
            let dup = (crate::packs::noisy::<P>(raw.key(), order ^ j), (1u64 << 45) + (order % 1_000_000) * 8 + j);
            let pos = rng.below(list.len() as u64 + 1) as usize;
            list.insert(pos, dup);
        }
        // sequential insert semantics
        let mut exp: BTreeMap<Key, (Raw, u64)> = BTreeMap::new();
        for (raw, v) in &list {
            exp.insert(raw.key(), (*raw, *v));
        }
        let mw = &mut self.maps[i];
        let old = std::mem::take(&mut mw.real);
        let new: PrefixMap<P, Val> = ctx.mutate("collect", || {
            drop(old);
            list.iter().map(|(r, v)| (P::make(*r), Val::new(*v))).collect()
        })?;
        mw.real = new;
        mw.canonical = true;
        let t = mw.truth();
        let got: Vec<(Key, u64)> = t.ents.iter().map(|e| (e.key, e.v)).collect();
        let want: Vec<(Key, u64)> = exp.iter().map(|(k, x)| (*k, x.1)).collect();
        chk!(ctx, "C01", got == want, "collect:duplicates", "collect() of {:?} holds {:?}, inserting the items one by one gives {:?}", list, t.ents, exp);
        chk!(ctx, "C19", got == want, "collect:duplicates", "collect() of {:?} holds {:?}, expected {:?}", list, t.ents, exp);
        chk!(ctx, "C04", mw.real.len() == t.ents.len(), "len:collect", "collect: len() = {} but {} entries", mw.real.len(), t.ents.len());
        if got == want {
            for e in &t.ents {
                let x = exp[&e.key];
                chk!(ctx, "C18", e.raw == x.0, "stored-repr:collect", "after collect() entry {} is stored as {} but the last item for that network was {}", e.key, e.raw, x.0);
            }
        }
        mw.model = exp;
        mw.hw = t.n_reachable;
        ctx.rare("probe.collect from a sequence with repeated networks");
        Ok(())
    }

    fn exec_rebuild(&mut self, ctx: &mut Ctx, i: usize, how: u8, order: u64) -> R {
        let before = self.truths[i].ents.clone();
        let mw = &mut self.maps[i];
        let exp: Vec<(Raw, u64)> = before.iter().map(|e| (e.raw, e.v)).collect();
        let (new, seq, what): (PrefixMap<P, Val>, Vec<(Raw, u64)>, &str) = match how % 4 {
            0 => {
                let old = std::mem::take(&mut mw.real);
                let r = ctx.mutate("into_iter", || {
                    let mut it = old.into_iter();
                    let items: Vec<(P, Val)> = it.by_ref().collect();
                    let fused = it.next().is_none() && it.next().is_none();
                    let seq: Vec<(Raw, u64)> = items.iter().map(|(p, v)| (p.raw(), v.payload)).collect();
                    (items.into_iter().collect::<PrefixMap<P, Val>>(), seq, fused)
                })?;
                chk!(ctx, "C03", r.2, "fused:into_iter", "into_iter yielded an item after None");
                (r.0, r.1, "into_iter")
            }
            1 => {
                let r = ctx.mutate("iter.collect", || {
                    let mut items: Vec<(P, Val)> = mw.real.iter().map(|(p, v)| (p.clone(), v.clone())).collect();
                    let seq: Vec<(Raw, u64)> = items.iter().map(|(p, v)| (p.raw(), v.payload)).collect();
                    Rng::new(order).shuffle(&mut items);
                    (items.into_iter().collect::<PrefixMap<P, Val>>(), seq)
                })?;
                // both alive: rebuilt == original
                let eq = ctx.obs("C19", "eq", || r.0 == mw.real && mw.real == r.0)?;
                chk!(ctx, "C19", eq, "collect:eq", "map rebuilt by collect() != original {:?}", before);
                let old = std::mem::take(&mut mw.real);
                ctx.mutate("drop", move || drop(old))?;
                (r.0, r.1, "iter")
            }
            2 => {
                let old = std::mem::take(&mut mw.real);
                let r = ctx.mutate("into_children", || {
                    let items: Vec<(P, Val)> = old.into_children(&P::make(Raw::new(0, 0))).collect();
                    let seq: Vec<(Raw, u64)> = items.iter().map(|(p, v)| (p.raw(), v.payload)).collect();
                    (items.into_iter().collect::<PrefixMap<P, Val>>(), seq)
                })?;
                (r.0, r.1, "into_children")
            }
            _ => {
                let old = std::mem::take(&mut mw.real);
                let r = ctx.mutate("into_keys/into_values", || {
                    let keys: Vec<P> = old.clone().into_keys().collect();
                    let vals: Vec<Val> = old.into_values().collect();
                    let seq: Vec<(Raw, u64)> = keys.iter().map(|p| p.raw()).zip(vals.iter().map(|v| v.payload)).collect();
                    let n = (keys.len(), vals.len());
                    (keys.into_iter().zip(vals).collect::<PrefixMap<P, Val>>(), seq, n)
                })?;
                chk!(ctx, "C03", r.2 .0 == r.2 .1, "seq:into_keys/into_values", "into_keys yielded {} items, into_values {}", r.2 .0, r.2 .1);
                (r.0, r.1, "into_keys+into_values")
            }
        };
        chk!(ctx, "C03", seq == exp, format!("seq:{what}"), "{what} yielded {:?}, expected {:?}", seq, exp);
        mw.real = new;
        mw.canonical = true;
        let t = mw.truth();
        chk!(ctx, "C19", t.ents == before, "collect:contents", "map rebuilt by collect ({what}) has {:?}, original {:?}", t.ents, before);
        chk!(ctx, "C04", mw.real.len() == t.ents.len(), "len:collect", "collect: len() = {} but {} entries", mw.real.len(), t.ents.len());
        mw.hw = t.n_reachable;
        ctx.hit("step.rebuild");
        Ok(())
    }

    fn exec_entry(&mut self, ctx: &mut Ctx, i: usize, k: Raw, acts: &[EAct], panic_at: Option<u32>) -> R {
        let key = k.key();
        let mw = &mut self.maps[i];
        let obs: RefCell<Vec<EObs>> = RefCell::new(vec![]);
        let push = |o: EObs| obs.borrow_mut().push(o);
        arm_fault(panic_at);
        let real = &mut mw.real;
        let r = ctx.mutate_faulty("entry", || {
            let mut e = real.entry(P::make(k));
            for a in acts {
                match a {
                    EAct::Get => push(EObs::Get(e.get().map(|v| v.payload))),
                    EAct::GetMutWrite(v) => match e.get_mut() {
                        Some(r) => {
                            push(EObs::GetMut(Some(r.payload)));
                            r.payload = *v;
                        }
                        None => push(EObs::GetMut(None)),
                    },
                    EAct::Key => push(EObs::Key(e.key().raw())),
                    EAct::AndModify(v) => {
                        e = e.and_modify(|x| {
                            callback_point();
                            push(EObs::Modified(x.payload));
                            x.payload = *v;
                        });
                    }
                    EAct::Insert(v) => {
                        let old = e.insert(Val::new(*v));
                        push(EObs::Inserted(old.map(|o| o.payload)));
                        return;
                    }
                    EAct::OrInsert(v) => {
                        let r = e.or_insert(Val::new(*v));
                        push(EObs::Ref(r.payload));
                        return;
                    }
                    EAct::OrInsertWith(v) => {
                        let r = e.or_insert_with(|| {
                            callback_point();
                            Val::new(*v)
                        });
                        push(EObs::Ref(r.payload));
                        return;
                    }
                    EAct::OrDefault => {
                        let r = e.or_default();
                        push(EObs::Ref(r.payload));
                        return;
                    }
                    EAct::Forget => {
                        std::mem::forget(e);
                        push(EObs::Forgot);
                        return;
                    }
                    EAct::Match { occ, vac } => {
                        match e {
                            Entry::Occupied(mut o) => {
                                push(EObs::Occ(true));
                                let mut removed = false;
                                for oa in occ {
                                    match oa {
                                        OAct::Key => push(EObs::Key(o.key().raw())),
                                        OAct::Get => {
                                            if removed {
                                                push(EObs::UseAfterRemove);
                                            }
                                            push(EObs::Get(Some(o.get().payload)))
                                        }
                                        OAct::GetMutWrite(v) => {
                                            if removed {
                                                push(EObs::UseAfterRemove);
                                            }
                                            let r = o.get_mut();
                                            push(EObs::GetMut(Some(r.payload)));
                                            r.payload = *v;
                                        }
                                        OAct::Remove => {
                                            if removed {
                                                push(EObs::UseAfterRemove);
                                            }
                                            let v = o.remove();
                                            removed = true;
                                            push(EObs::ORemove(v.payload));
                                        }
                                        OAct::Insert(v) => {
                                            if removed {
                                                push(EObs::UseAfterRemove);
                                            }
                                            let old = o.insert(Val::new(*v));
                                            push(EObs::OInsert(old.payload));
                                            return;
                                        }
                                        OAct::RewrapOrInsert(v) => {
                                            let r = Entry::Occupied(o).or_insert(Val::new(*v));
                                            push(EObs::Ref(r.payload));
                                            return;
                                        }
                                        OAct::RewrapModify(v) => {
                                            let r = Entry::Occupied(o)
                                                .and_modify(|x| {
                                                    callback_point();
                                                    push(EObs::Modified(x.payload));
                                                    x.payload = *v;
                                                })
                                                .or_insert_with(|| {
                                                    callback_point();
                                                    Val::new(*v ^ (1 << 50))
                                                });
                                            push(EObs::Ref(r.payload));
                                            return;
                                        }
                                        OAct::RewrapOrDefault => {
                                            let r = Entry::Occupied(o).or_default();
                                            push(EObs::Ref(r.payload));
                                            return;
                                        }
                                        OAct::Forget => {
                                            std::mem::forget(o);
                                            push(EObs::Forgot);
                                            return;
                                        }
                                    }
                                }
                            }
                            Entry::Vacant(ve) => {
                                push(EObs::Occ(false));
                                for va in vac {
                                    match va {
                                        VAct::Key => push(EObs::Key(ve.key().raw())),
                                        VAct::Insert(v) => {
                                            let r = ve.insert(Val::new(*v));
                                            push(EObs::Ref(r.payload));
                                            return;
                                        }
                                        VAct::InsertWith(v) => {
                                            let r = ve.insert_with(|| {
                                                callback_point();
                                                Val::new(*v)
                                            });
                                            push(EObs::Ref(r.payload));
                                            return;
                                        }
                                        VAct::Default => {
                                            let r = ve.default();
                                            push(EObs::Ref(r.payload));
                                            return;
                                        }
                                        VAct::Forget => {
                                            std::mem::forget(ve);
                                            push(EObs::Forgot);
                                            return;
                                        }
                                    }
                                }
                            }
                        }
                        return;
                    }
                }
            }
        });
        arm_fault(None);
        let obs = obs.into_inner();
        let mut uar_panicked = false;
        let r = match r {
            Err(Abort::Violation(mut v)) => {
                // a panic on use of an OccupiedEntry after remove(&mut self) has its own class
                if obs.last() == Some(&EObs::UseAfterRemove) && v.sig.contains("unwrap-none") {
                    v.sig = "C20:panic:OccupiedEntry-use-after-remove".into();
                    if crate::known::matches(&ctx.known, "C20", &v.sig).is_some() {
                        // listed finding (KNOWN_FINDINGS.txt): note it and go on - the panic must
                        // have left the map as it was after the remove()
                        if !ctx.known_hits.contains(&v.sig) {
                            ctx.known_hits.push(v.sig.clone());
                        }
                        ctx.stats.hit("known.OccupiedEntry-use-after-remove");
                        uar_panicked = true;
                        None
                    } else {
                        return Err(Abort::Violation(v));
                    }
                } else {
                    return Err(Abort::Violation(v));
                }
            }
            Err(e) => return Err(e),
            Ok(r) => r,
        };
        let panicked = r.is_none();
        if panicked && !uar_panicked {
            ctx.hit("probe.entry closure panicked");
        }
        if uar_panicked && ctx.is("C20") {
            // size-consistency etc. after the (known) panic
            let expm: Vec<Ent> = mw.model.iter().filter(|(kk, _)| **kk != key).map(|(kk, x)| Ent { key: *kk, raw: x.0, v: x.1 }).collect();
            crate::packs2::valid_after_fault(ctx, &mw.real, &expm, "OccupiedEntry use after remove")?;
        }
        if obs.contains(&EObs::ORemove(0)) || obs.iter().any(|o| matches!(o, EObs::ORemove(_))) {
            mw.canonical = false;
            ctx.rare("probe.OccupiedEntry::remove");
        }
        if obs.contains(&EObs::Forgot) {
            ctx.hit("fault.forget fired");
        }
        // ---- model twin: replay the acts on the model, producing the expected observations
        let model = &mut mw.model;
        let mut exp: Vec<EObs> = vec![];
        // re-inserting through a re-wrapped OccupiedEntry after remove(): the property does not say
        // whether the node keeps its old representation or takes the entry's; accept either
        let mut ambiguous_raw = false;
        let mut cb = panic_at;
        let mut fire = move || -> bool {
            match cb {
                Some(0) => {
                    cb = None;
                    true
                }
                Some(n) => {
                    cb = Some(n - 1);
                    false
                }
                None => false,
            }
        };
        'outer: for a in acts {
            match a {
                EAct::Get => exp.push(EObs::Get(model.get(&key).map(|x| x.1))),
                EAct::GetMutWrite(v) => match model.get_mut(&key) {
                    Some(x) => {
                        exp.push(EObs::GetMut(Some(x.1)));
                        x.1 = *v;
                    }
                    None => exp.push(EObs::GetMut(None)),
                },
                EAct::Key => exp.push(EObs::Key(model.get(&key).map(|x| x.0).unwrap_or(k))),
                EAct::AndModify(v) => {
                    if let Some(x) = model.get_mut(&key) {
                        if fire() {
                            break 'outer;
                        }
                        exp.push(EObs::Modified(x.1));
                        x.1 = *v;
                    }
                }
                EAct::Insert(v) => {
                    let old = model.insert(key, (k, *v));
                    exp.push(EObs::Inserted(old.map(|x| x.1)));
                    break;
                }
                EAct::OrInsert(v) => {
                    let e = model.entry(key).or_insert((k, *v));
                    exp.push(EObs::Ref(e.1));
                    break;
                }
                EAct::OrInsertWith(v) => {
                    if !model.contains_key(&key) {
                        if fire() {
                            break 'outer;
                        }
                        model.insert(key, (k, *v));
                    }
                    exp.push(EObs::Ref(model[&key].1));
                    break;
                }
                EAct::OrDefault => {
                    if !model.contains_key(&key) {
                        if fire() {
                            break 'outer;
                        }
                        model.insert(key, (k, DEFAULT_PAYLOAD));
                    }
                    exp.push(EObs::Ref(model[&key].1));
                    break;
                }
                EAct::Forget => {
                    exp.push(EObs::Forgot);
                    break;
                }
                EAct::Match { occ, vac } => {
                    if model.contains_key(&key) {
                        exp.push(EObs::Occ(true));
                        let mut removed: Option<Raw> = None;
                        for oa in occ {
                            match oa {
                                OAct::Key => exp.push(EObs::Key(removed.unwrap_or_else(|| model[&key].0))),
                                OAct::Get => {
                                    if removed.is_some() {
                                        exp.push(EObs::UseAfterRemove);
                                        break 'outer;
                                    }
                                    exp.push(EObs::Get(Some(model[&key].1)))
                                }
                                OAct::GetMutWrite(v) => {
                                    if removed.is_some() {
                                        exp.push(EObs::UseAfterRemove);
                                        break 'outer;
                                    }
                                    let x = model.get_mut(&key).unwrap();
                                    exp.push(EObs::GetMut(Some(x.1)));
                                    x.1 = *v;
                                }
                                OAct::Remove => {
                                    if removed.is_some() {
                                        exp.push(EObs::UseAfterRemove);
                                        break 'outer;
                                    }
                                    let x = model.remove(&key).unwrap();
                                    removed = Some(x.0);
                                    exp.push(EObs::ORemove(x.1));
                                }
                                OAct::Insert(v) => {
                                    if removed.is_some() {
                                        exp.push(EObs::UseAfterRemove);
                                        break 'outer;
                                    }
                                    let old = model.insert(key, (k, *v)).unwrap();
                                    exp.push(EObs::OInsert(old.1));
                                    break 'outer;
                                }
                                OAct::RewrapOrInsert(v) => {
                                    if let Some(old_raw) = removed {
                                        model.insert(key, (old_raw, *v));
                                        ambiguous_raw = true;
                                    }
                                    exp.push(EObs::Ref(model[&key].1));
                                    break 'outer;
                                }
                                OAct::RewrapModify(v) => {
                                    if let Some(old_raw) = removed {
                                        if fire() {
                                            break 'outer;
                                        }
                                        model.insert(key, (old_raw, *v ^ (1 << 50)));
                                        ambiguous_raw = true;
                                    } else {
                                        if fire() {
                                            break 'outer;
                                        }
                                        let x = model.get_mut(&key).unwrap();
                                        exp.push(EObs::Modified(x.1));
                                        x.1 = *v;
                                    }
                                    exp.push(EObs::Ref(model[&key].1));
                                    break 'outer;
                                }
                                OAct::RewrapOrDefault => {
                                    if let Some(old_raw) = removed {
                                        if fire() {
                                            break 'outer;
                                        }
                                        model.insert(key, (old_raw, DEFAULT_PAYLOAD));
                                        ambiguous_raw = true;
                                    }
                                    exp.push(EObs::Ref(model[&key].1));
                                    break 'outer;
                                }
                                OAct::Forget => {
                                    exp.push(EObs::Forgot);
                                    break 'outer;
                                }
                            }
                        }
                    } else {
                        exp.push(EObs::Occ(false));
                        for va in vac {
                            match va {
                                VAct::Key => exp.push(EObs::Key(k)),
                                VAct::Insert(v) => {
                                    model.insert(key, (k, *v));
                                    exp.push(EObs::Ref(*v));
                                    break 'outer;
                                }
                                VAct::InsertWith(v) => {
                                    if fire() {
                                        break 'outer;
                                    }
                                    model.insert(key, (k, *v));
                                    exp.push(EObs::Ref(*v));
                                    break 'outer;
                                }
                                VAct::Default => {
                                    if fire() {
                                        break 'outer;
                                    }
                                    model.insert(key, (k, DEFAULT_PAYLOAD));
                                    exp.push(EObs::Ref(DEFAULT_PAYLOAD));
                                    break 'outer;
                                }
                                VAct::Forget => {
                                    exp.push(EObs::Forgot);
                                    break 'outer;
                                }
                            }
                        }
                    }
                    break;
                }
            }
        }
        if ambiguous_raw {
            let stored = mw.real.get_key_value(&P::make(k)).map(|(p, _)| p.raw());
            if let (Some(s), Some(x)) = (stored, mw.model.get_mut(&key)) {
                if s == k {
                    x.0 = k;
                }
            }
        }
        if ctx.is("C01") || ctx.is("C18") {
            // compare observation by observation; a differing Key observation with the same
            // network part is a representation (C18) matter, everything else is C01
            let n = obs.len().max(exp.len());
            for j in 0..n {
                let (o, e) = (obs.get(j), exp.get(j));
                if o == e {
                    continue;
                }
                if let (Some(EObs::Key(a)), Some(EObs::Key(b))) = (o, e) {
                    if a.key() == b.key() {
                        chk!(ctx, "C18", false, "entry:key-repr", "Entry::key() at {k}: returned {a}, expected stored/passed representation {b}; acts {:?}", acts);
                        continue;
                    }
                }
                chk!(ctx, "C01", false, "entry:obs", "entry({k}) acts {:?}: observed {:?}, model expects {:?} (first difference at #{j})", acts, obs, exp);
            }
        }
        Ok(())
    }
}

pub fn two_mut<T>(v: &mut [T], i: usize, j: usize) -> (&mut T, &mut T) {
    assert!(i != j);
    if i < j {
        let (a, b) = v.split_at_mut(j);
        (&mut a[i], &mut b[0])
    } else {
        let (a, b) = v.split_at_mut(i);
        (&mut b[0], &mut a[j])
    }
}

/// C10 / C20: what a retain call must have done, given the predicate's call log.
pub fn retain_oracle(ctx: &mut Ctx, before: &[Ent], log: &[(Raw, u64, bool)], panicked: bool, after: &[Ent], what: &str) -> R {
    // every logged call was made with a stored entry and its current value, no entry twice
    let mut seen: Vec<Key> = vec![];
    for (raw, v, _) in log {
        let k = raw.key();
        let ent = before.iter().find(|e| e.key == k);
        chk!(ctx, "C10", ent.is_some(), format!("{what}:pred-called-with-absent"), "{what}: predicate called with {raw} which is not stored; stored {:?}", before);
        let ent = match ent {
            Some(e) => e,
            None => continue,
        };
        chk!(ctx, "C10", ent.v == *v && ent.raw == *raw, format!("{what}:pred-args"), "{what}: predicate called with ({raw}, {v}) but entry is ({}, {})", ent.raw, ent.v);
        chk!(ctx, "C10", !seen.contains(&k), format!("{what}:pred-twice"), "{what}: predicate evaluated twice for {raw}");
        seen.push(k);
    }
    if !panicked {
        chk!(ctx, "C10", seen.len() == before.len(), format!("{what}:pred-not-once"), "{what}: predicate evaluated for {} of {} entries; log {:?}, stored {:?}", seen.len(), before.len(), log, before);
    }
    let rejected: Vec<Key> = log.iter().filter(|l| !l.2).map(|l| l.0.key()).collect();
    let exp: Vec<Ent> = before.iter().filter(|e| !rejected.contains(&e.key)).cloned().collect();
    if panicked {
        ctx.rare("probe.retain panicked mid-way");
        chk!(ctx, "C20", after == exp.as_slice(), format!("{what}:after-panic"), "{what} with predicate panic after {} calls: entries {:?}, expected before - rejected = {:?}", log.len(), after, exp);
        chk!(ctx, "C10", after == exp.as_slice(), format!("{what}:after-panic"), "{what} with predicate panic after {} calls: entries {:?}, expected {:?}", log.len(), after, exp);
        chk!(ctx, "C01", after == exp.as_slice(), format!("{what}:after-panic"), "{what} with predicate panic after {} calls: entries {:?}, expected {:?}", log.len(), after, exp);
    } else {
        if !rejected.is_empty() {
            ctx.hit("probe.retain removed >=1");
        }
        chk!(ctx, "C10", after == exp.as_slice(), format!("{what}:effect"), "{what}: entries {:?}, expected {:?} (log {:?})", after, exp, log);
    }
    Ok(())
}
